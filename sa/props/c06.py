"""C06 -- note-length quantisation yields only allowed durations and never moves onsets (structural clauses)."""
from __future__ import annotations

import ast

from ..astutil import attr_chain, call_method, short, src, enum_member, kwarg, ancestors
from ..linear import Normaliser, Sym
from ..model import walk_local, AnalysisError
from ..report import Ctx
from ..engines import keykind
from ..engines.effects import Effects
from ..engines.typecase import TypeCase, events_matching
from ..engines.mustflow import MustFollow
from .c05 import output_list_name

FN = "AbsoluteSequence.quantise_note_lengths"


def check(ctx: Ctx) -> None:
    _check(ctx)
    _extra(ctx)


def _check(ctx: Ctx) -> None:
    p = ctx.p
    fi = p.func(FN)
    ctx.analysed(fi)
    ctx.explanation = (
        "Structural necessary conditions of C06 on AbsoluteSequence.quantise_note_lengths (+ the pairing function it uses): "
        "FR the only attribute written is `time` of the *second* element of a pairing (the note-off): onsets, pitch, channel, "
        "velocity are never written; DUR the new end minus the onset is, symbolically, the chosen allowed value "
        "(end' - start == best_fit, linear normal form); PROV the chosen value is an element of a copy of the allowed list "
        "from which values are only ever removed; KEY the occurrence table is per channel (allocated inside the loop over the "
        "channel partition) and get_message_pairings keys by channel and pitch; KEEP every non-note message of the event list "
        "is appended to the result exactly once, unfiltered; a pairing is emptied only under `no allowed duration left`; "
        "NOEXT with extension disabled every value with a positive correction is removed before the choice; "
        "NEXT the fit test against the next note of the same pitch compares end + correction with the next onset; "
        "SORT the rewritten list is re-sorted. Not decided: closest-fit arithmetic, non-overlap as a numeric fact.")
    ctx.assumptions += ["allowed durations are positive integers", "the list is a well-formed sequence (every note-on eventually matched), so PAIR makes every pairing a [note_on, note_off] list"]
    summ = keykind.summaries(p)
    keykind.check_function(ctx, FN, "KEY", expect_min=1, summ=summ)
    keykind.check_function(ctx, "AbsoluteSequence.get_message_pairings", "KEY", expect_min=2, summ=summ)
    from ..engines.pairing import check_pairings
    ctx.floor("pairing-table cases decided", check_pairings(ctx), 16)

    # --- FR
    eff = Effects(p)
    ws = [w for w in eff.writes("AbsoluteSequence", "quantise_note_lengths") if w.func == FN and w.kind == "attr"]
    ctx.require("FR", f"{FN}: the fitted duration is written to the note-off", len(ws), 1, function=FN,
                construct="quantise_note_lengths never writes a new end time", message="no store to a message attribute: every note keeps its length", file=fi.file, node=fi.node)
    for w in ws:
        t = w.node.target if isinstance(w.node, ast.AugAssign) else w.node.targets[0]
        base = t.value
        second = isinstance(base, ast.Subscript) and isinstance(base.slice, ast.Constant) and base.slice.value == 1
        ctx.check(w.attr == "time" and second, "FR", f"{FN}: `{short(w.node, 60)}` writes the note-off's time only", function=FN,
                  construct=f"writes `{w.attr}` of `{short(base)}`" if not (w.attr == "time" and second) else "ok",
                  message=f"`{short(w.node, 70)}`: only the end (element [1]) of a note may move; onset, pitch, channel and velocity must stay",
                  file=fi.file, node=w.node)

    # --- DUR + PROV
    nvals = fi.params[1]
    chosen_lists: set = set()
    for w in ws:
        if w.attr != "time":
            continue
        blk = _block_of(w.node)
        nz = Normaliser()
        # definitions in force: the simple assignments of every enclosing block that precede the write (outermost first)
        pre_ = [s for s in blk if s.lineno < w.node.lineno]
        for a in ancestors(w.node):
            if isinstance(a, ast.FunctionDef):
                break
            if isinstance(a, (ast.For, ast.While, ast.If)):
                pre_ = [s for s in _block_of(a) if isinstance(s, (ast.Assign, ast.AugAssign)) and s.lineno < a.lineno
                        and not any(isinstance(x, ast.Call) for x in ast.walk(s.value))] + pre_        # (arithmetic only: lists and look-ups keep their names)
        nz.run_block(pre_)
        t = w.node.target if isinstance(w.node, ast.AugAssign) else w.node.targets[0]
        pair = t.value.value if isinstance(t.value, ast.Subscript) else None
        if pair is None:
            continue
        old_end = nz.norm(t)
        if isinstance(w.node, ast.AugAssign):
            delta = nz.norm(w.node.value)
            new_end = old_end + delta if isinstance(w.node.op, ast.Add) else old_end - delta
        else:
            new_end = nz.norm(w.node.value)
        start = Sym.atom(f"{src(pair)}[0].time")
        dur = new_end - start
        # the chosen value: the unique non-time atom left
        import re as _re
        atoms = set(dur.atoms())
        inst = f"{FN}: new duration = `{short(ast.parse('x').body[0], 1) and dur.canon()[:90]}`"
        good = dur.is_monomial() and len(atoms) == 1 and list(dur.terms.values()) == [1] and \
            list(dur.terms.keys())[0] == ((next(iter(atoms)), 1),) and bool(_re.match(r"^(\w+\[|min\(\w+[;,] ?key=)", next(iter(atoms))))
        ctx.check(good, "DUR", inst + " is the chosen allowed value", function=FN,
                  construct="new end minus onset is not the chosen duration",
                  message=f"end' - start normalises to `{dur.canon()}`; it must reduce to the selected element of the allowed list",
                  file=fi.file, node=w.node)
        if good:
            chosen = next(iter(atoms))
            # chosen = valid[<index expr>] with valid a local list
            import re
            mm = re.match(r"^(\w+)\[", chosen) or re.match(r"^min\((\w+)[;,] ?key=", chosen)      # an element picked by index, or by min(list, key=...)
            lst = mm.group(1) if mm else None
            if lst:
                chosen_lists.add(lst)
            ok = False
            why = f"chosen value `{chosen}`"
            if lst:
                defs = [n for n in ast.walk(fi.node) if isinstance(n, ast.Assign) and any(isinstance(x, ast.Name) and x.id == lst for x in n.targets)]
                muts = [c for c in ast.walk(fi.node) if isinstance(c, ast.Call) and isinstance(call_method(c)[0], ast.Name)
                        and call_method(c)[0].id == lst and call_method(c)[1] in ("append", "insert", "extend", "sort", "reverse", "__setitem__")]
                substores = [n for n in ast.walk(fi.node) if isinstance(n, (ast.Assign, ast.AugAssign)) and any(
                    isinstance(x, ast.Subscript) and isinstance(x.value, ast.Name) and x.value.id == lst
                    for x in (n.targets if isinstance(n, ast.Assign) else [n.target]))]
                from_allowed = bool(defs) and all(_is_copy_of(d.value, nvals) for d in defs)
                ok = from_allowed and not muts and not substores
                why = f"`{lst}` defined by {[short(d.value, 40) for d in defs]}, growing mutations {len(muts) + len(substores)}"
            ctx.check(ok, "PROV", f"{FN}: the chosen value is drawn from a shrinking copy of `{nvals}`", function=FN,
                      construct="chosen duration is not an element of the (filtered) allowed list",
                      message=why, file=fi.file, node=w.node, detail=why)

    # --- removal only when nothing fits; NOEXT; NEXT
    empt = [n for n in ast.walk(fi.node) if isinstance(n, ast.Assign) and isinstance(n.value, ast.List) and not n.value.elts
            and any(isinstance(t, ast.Subscript) for t in n.targets)]
    for e in empt:
        g = getattr(e, "_parent", None)
        ok = False
        if isinstance(g, ast.If):
            # the sole guard says `the list of admissible durations is empty`, in whichever spelling and branch
            from ..astutil import emptiness_test
            et = emptiness_test(g.test)
            ok = et is not None and ((e in g.body and et[1] is True) or (e in g.orelse and et[1] is False)) \
                and (not chosen_lists or et[0] in chosen_lists)
        ctx.check(ok, "KEEP", f"{FN}: a note is removed only when no allowed duration is left", function=FN,
                  construct="note removed under a condition other than `no allowed duration fits`",
                  message=f"`{short(g.test) if isinstance(g, ast.If) else '?'}`", file=fi.file, node=e)
    filter_rules(ctx)

    # --- KEEP: non-note messages copied through
    out = output_list_name(fi.node)
    loops = [n for n in fi.node.body if isinstance(n, ast.For) and attr_chain(n.iter) == ["self", "_messages"] and isinstance(n.target, ast.Name)]
    if out is None and loops:
        ctx.violation("KEEP", f"{FN}: the result list is installed as the sequence's event list", function=FN,
                      construct="the operation never installs its result (`self._messages = <result list>` is missing)",
                      message="the rebuilt list is dropped on return: the sequence is left exactly as it was", file=fi.file, node=fi.node)
        return
    if out is None or not loops:
        raise AnalysisError(f"{FN}: output list / copy-through loop not found")
    lp = loops[-1]
    for T in p.enum_order("MessageType"):
        if T == "WAIT":
            continue
        tc = TypeCase(p, fi, {lp.target.id}, T)
        exits = tc.run_body(lp.body)
        rng = events_matching(exits, lambda e: e[0] == "append" and e[1] == out and e[2] == "msg")
        if T in ("NOTE_ON", "NOTE_OFF"):
            ctx.check(rng in (None, (0, 0)), "KEEP", f"{FN}: {T} not copied a second time {rng}", function=FN,
                      construct=f"{T} messages are copied through in addition to their pairing", message=f"{rng}", file=fi.file, node=lp)
        else:
            ctx.check(rng == (1, 1), "KEEP", f"{FN}: {T} copied through exactly once {rng}", function=FN,
                      construct="non-note message not copied to the result exactly once",
                      message=f"a {T} message is appended {rng} times", file=fi.file, node=lp)
    # every pairing is extended into the result
    ext = [c for c in ast.walk(fi.node) if isinstance(c, ast.Call) and call_method(c)[1] == "extend" and isinstance(call_method(c)[0], ast.Name)
           and call_method(c)[0].id == out]
    ctx.check(bool(ext), "KEEP", f"{FN}: pairings are written to the result", function=FN, construct="pairings never added to the result",
              message="", file=fi.file, node=fi.node)
    skip_form = False
    for c in ext:
        guarded = any(isinstance(a, ast.If) for a in ancestors(c) if a is not fi.node)
        if guarded and not empt:
            # the other way to drop a note nothing fits: its pairing is skipped instead of being emptied first -- written out under
            # exactly `an allowed duration is left`
            from ..astutil import emptiness_test, path_conditions
            pcs = path_conditions(c)
            if len(pcs) == 1:
                et = emptiness_test(pcs[0][0])
                if et is not None and (et[1] is not pcs[0][1]) and (not chosen_lists or et[0] in chosen_lists):
                    guarded = False
                    skip_form = True
        ctx.check(not guarded, "KEEP", f"{FN}: pairings are added unconditionally", function=FN, construct="pairings added under a condition",
                  message="", file=fi.file, node=c)
    # ... and the removal itself exists: the pairing is emptied under `nothing fits`, or written out only under `something fits`
    ctx.check(bool(empt) or skip_form, "KEEP", f"{FN}: a note for which no allowed duration is left is removed", function=FN,
              construct="a note for which no allowed duration is left is not removed",
              message="neither `pairings[i] = []` under the emptiness test nor a write-out guarded by it: the note stays with a length outside the allowed values",
              file=fi.file, node=ext[0] if ext else fi.node)

    # --- SORT
    def trigger(n):
        return isinstance(n, ast.Assign) and any(attr_chain(t) == ["self", "_messages"] for t in n.targets)

    def discharge(n):
        if isinstance(n, ast.Call):
            recv, name = call_method(n)
            if isinstance(recv, ast.Name) and recv.id == "self" and name and p.lookup_method("AbsoluteSequence", name):
                return any(w.kind == "sort" for w in eff.writes("AbsoluteSequence", name))
            if attr_chain(recv) == ["self", "_messages"] and name == "sort":
                return True
        return False
    bad = MustFollow(trigger, discharge).run(fi.node)
    ctx.check(not bad, "SORT", f"{FN}: canonical re-sort after rewriting the event list", function=FN,
              construct="event list rewritten without a following canonical sort", message="", file=fi.file, node=bad[0][1] if bad else fi.node)


def filter_rules(ctx: Ctx, only=None) -> None:
    """NOEXT / NEXT: the two filters on the candidate values (shared with C09, whose bars are re-quantised shorten-only)."""
    p = ctx.p
    fi = p.func(FN)
    ctx.analysed(fi)
    nvals = fi.params[1]
    flag = next((a for a in fi.params if "extend" in a), None)
    if flag is None:
        raise AnalysisError(f"{FN}: do_not_extend parameter not found")
    removes = [c for c in ast.walk(fi.node) if isinstance(c, ast.Call) and call_method(c)[1] == "remove"]
    noext = []
    nxt = []
    # a removal under `A or B` is a removal under A and a removal under B (a value is dropped when either filter wants it dropped):
    # each disjunct is one filter, judged on its own
    part = {}
    for c in removes:
        g = next((a for a in ancestors(c) if isinstance(a, ast.If)), None)
        if g is None:
            continue
        in_body = any(c is x for y in g.body for x in ast.walk(y))
        disj = g.test.values if isinstance(g.test, ast.BoolOp) and isinstance(g.test.op, ast.Or) and in_body else [g.test]
        for d_ in disj:
            if len(disj) > 1:
                g2 = ast.copy_location(ast.If(test=d_, body=g.body, orelse=[]), g)
                g2._parent = getattr(g, "_parent", None)
                g2._whole = g
            else:
                g2 = g
            if flag in {n.id for n in ast.walk(d_) if isinstance(n, ast.Name)}:
                noext.append((c, g2))
            else:
                nxt.append((c, g2))
    ctx.check(len(noext) >= 1, "NOEXT", f"{FN}: `{flag}` filter present", function=FN, construct=f"no removal guarded by {flag}", message="",
              file=fi.file, node=fi.node)
    for c, g in noext:
        conj = [x for x in (g.test.values if isinstance(g.test, ast.BoolOp) and isinstance(g.test.op, ast.And) else [g.test])]
        pos = [x for x in conj if isinstance(x, ast.Compare) and isinstance(x.ops[0], ast.Gt) and isinstance(x.comparators[0], ast.Constant)
               and x.comparators[0].value == 0]
        has_flag = any(isinstance(x, ast.Name) and x.id == flag for x in conj)
        ok = bool(pos) and has_flag and isinstance(g.test, ast.BoolOp) and isinstance(g.test.op, ast.And)
        # the positive quantity is value - current duration
        if ok:
            nz = Normaliser()
            # definitions in force: simple assignments of every enclosing block that precede the test (outermost first)
            chain_ = [a for a in ancestors(getattr(g, "_whole", g)) if isinstance(a, (ast.For, ast.While, ast.If, ast.FunctionDef))]
            pre_ = []
            node_ = g
            for a in [getattr(g, "_whole", g)] + chain_:
                blk_ = _block_of(a)
                pre_ = [s for s in blk_ if isinstance(s, (ast.Assign, ast.AugAssign)) and s.lineno < a.lineno] + pre_
            nz.run_block(pre_)
            q = nz.norm(pos[0].left)
            arg = nz.norm(c.args[0]) if c.args else None
            d = (q - arg) if arg is not None else None
            # value - (end - onset): two time atoms with coefficients +1 (onset) and -1 (end)
            # (value - (end - onset)) - value  ==  onset - end : the end with coefficient -1, the onset with +1
            ok = d is not None and len(d.terms) == 2 and all(".time" in a for a in d.atoms()) \
                and any(a.endswith("[1].time") and d.terms.get(((a, 1),)) == -1 for a in d.atoms()) \
                and any(a.endswith("[0].time") and d.terms.get(((a, 1),)) == 1 for a in d.atoms())
        ctx.check(ok, "NOEXT", f"{FN}: with `{flag}` every value longer than the current duration is removed", function=FN,
                  construct=f"{flag} filter does not remove exactly the values with a positive correction",
                  message=f"`{short(g.test, 90)}`", file=fi.file, node=g)
        # nothing else may stand between a candidate value and this filter: the path condition of the removal, up to the
        # per-note loop, consists of the flag, the positive-correction test and (optionally) a membership test only
        extra = []
        node_ = c
        for a in ancestors(c):
            if isinstance(a, ast.For) and not (isinstance(a.iter, ast.Name) and a.iter.id == nvals):
                break
            if a is getattr(g, "_whole", None):
                a = g                       # this filter's own disjunct of the shared guard
            if isinstance(a, ast.If):
                in_body = any(node_ is x or node_ in ast.walk(x) for x in a.body)
                if not in_body:
                    extra.append(f"only when `{short(a.test, 60)}` is false")
                else:
                    for x in (a.test.values if isinstance(a.test, ast.BoolOp) and isinstance(a.test.op, ast.And) else [a.test]):
                        is_flag = isinstance(x, ast.Name) and x.id == flag
                        is_pos = isinstance(x, ast.Compare) and isinstance(x.ops[0], ast.Gt) and isinstance(x.comparators[0], ast.Constant) and x.comparators[0].value == 0
                        is_member = isinstance(x, ast.Compare) and isinstance(x.ops[0], ast.In)
                        if not (is_flag or is_pos or is_member):
                            extra.append(f"only when `{short(x, 60)}`")
            node_ = a
        ctx.check(not extra, "NOEXT", f"{FN}: the `{flag}` filter applies to every note", function=FN,
                  construct=f"{flag} filter is skipped for some notes",
                  message=f"the removal of lengthening values runs {', '.join(extra)}: other notes can still be extended although extension is disabled",
                  file=fi.file, node=g)
        # the filter runs for every allowed value: its loop iterates the full allowed list
        lp = next((a for a in ancestors(c) if isinstance(a, ast.For)), None)
        ctx.check(lp is not None and isinstance(lp.iter, ast.Name) and lp.iter.id == nvals, "NOEXT",
                  f"{FN}: `{flag}` filter visits every allowed value", function=FN, construct=f"{flag} filter does not iterate the allowed list",
                  message="", file=fi.file, node=g)
    if not nxt:
        ctx.violation("NEXT", f"{FN}: allowed values that would run into the next note of the pitch are removed", function=FN,
                      construct="no filter removes the durations that reach into the next note of the same pitch",
                      message="no removal from the list of admissible durations is guarded by a comparison with the next occurrence's onset: "
                              "a note can be lengthened into (or past) the next note of its pitch", file=fi.file, node=fi.node)
    # the pairing compared with is the *next* occurrence of the pitch: occurrences[pitch][position of this pairing + 1]
    nzi = Normaliser()
    for a_ in ast.walk(fi.node):
        if isinstance(a_, ast.Assign) and isinstance(a_.targets[0], ast.Name) and isinstance(a_.value, ast.Subscript) and isinstance(a_.value.value, ast.Subscript) \
                and any(a_.targets[0].id == x.id for c_, g_ in nxt for x in ast.walk(g_.test) if isinstance(x, ast.Name)):
            idx = nzi.norm(a_.value.slice)
            idx_names = [x for x in idx.atoms()]
            defs_ = [d_ for d_ in ast.walk(fi.node) if isinstance(d_, ast.Assign) and isinstance(d_.targets[0], ast.Name) and d_.targets[0].id in idx_names
                     and isinstance(d_.value, ast.Call) and call_method(d_.value)[1] == "index"]
            ok_i = len(idx_names) == 1 and len(defs_) == 1 and idx == Sym.atom(idx_names[0]) + Sym.const(1) \
                and src(call_method(defs_[0].value)[0]) == src(a_.value.value)
            ctx.check(ok_i, "NEXT", f"{FN}: the note compared with is the next occurrence of the pitch (`{short(a_.value, 60)}`)", function=FN,
                      construct="the fit test looks at an occurrence other than the next one of the same pitch",
                      message=f"`{short(a_, 90)}`: index normal form `{idx.canon()}`, expected position of this note + 1", file=fi.file, node=a_)
    for c, g in nxt:
        t = g.test
        # `nxt is not None and <fit test>`: the existence of a next note is a guard, the comparison is the test
        if isinstance(t, ast.BoolOp) and isinstance(t.op, ast.And):
            rest_ = [v for v in t.values if not (isinstance(v, ast.Compare) and len(v.ops) == 1 and isinstance(v.ops[0], (ast.IsNot, ast.NotEq))
                                                 and isinstance(v.comparators[0], ast.Constant) and v.comparators[0].value is None)]
            if len(rest_) == 1:
                t = rest_[0]
        from ..linear import relation, same_relation
        nz = Normaliser()
        chain_ = [a for a in ancestors(getattr(g, "_whole", g)) if isinstance(a, (ast.For, ast.While, ast.If, ast.FunctionDef))]
        pre_ = []
        for a in [getattr(g, "_whole", g)] + chain_:
            pre_ = [s for s in _block_of(a) if isinstance(s, (ast.Assign, ast.AugAssign)) and s.lineno < a.lineno] + pre_
        nz.run_block(pre_)
        rr = relation(t, nz)
        ok = False
        if rr is not None:
            d, op = rr
            # after substitution: (own start + candidate value) - next onset > 0, in either orientation
            times = [a for a in d.atoms() if a.endswith("[0].time")]
            others = [a for a in d.atoms() if not a.endswith(".time")]
            if len(times) == 2 and len(others) == 1 and len(d.terms) == 3:
                cv = d.terms.get(((others[0], 1),))
                own = [a for a in times if d.terms.get(((a, 1),)) == cv]
                nxt_ = [a for a in times if d.terms.get(((a, 1),)) == -cv] if cv is not None else []
                if len(own) == 1 and len(nxt_) == 1:
                    ok = same_relation(rr, Sym.atom(own[0]) + Sym.atom(others[0]) - Sym.atom(nxt_[0]), ">")
        ctx.check(ok, "NEXT", f"{FN}: a value is discarded iff the note would run past the next onset of its pitch", function=FN,
                  construct="fit test against the next note is not `end + correction > next onset`",
                  message=f"`{short(t, 90)}`", file=fi.file, node=g)



def _is_copy_of(e: ast.AST, name: str) -> bool:
    if isinstance(e, ast.Call):
        ch = attr_chain(e.func)
        if ch in (["copy", "copy"], ["copy", "deepcopy"], ["list"], ["sorted"]) and e.args and isinstance(e.args[0], ast.Name) and e.args[0].id == name:
            return True
        recv, m = call_method(e)
        if isinstance(recv, ast.Name) and recv.id == name and m == "copy":
            return True
    if isinstance(e, ast.Subscript) and isinstance(e.value, ast.Name) and e.value.id == name and isinstance(e.slice, ast.Slice):
        return True
    if isinstance(e, ast.ListComp) and len(e.generators) == 1 and isinstance(e.generators[0].iter, ast.Name) and e.generators[0].iter.id == name \
            and isinstance(e.elt, ast.Name) and isinstance(e.generators[0].target, ast.Name) and e.elt.id == e.generators[0].target.id:
        return True
    return False


def _block_of(n: ast.AST) -> list[ast.stmt]:
    par = getattr(n, "_parent", None)
    for fld in ("body", "orelse", "finalbody"):
        b = getattr(par, fld, None)
        if isinstance(b, list) and n in b:
            return b
    return [n]


def _extra(ctx):
    from ..engines.typestate import check_wrappers
    check_wrappers(ctx, ['quantise_note_lengths'])
    from ..engines.structure import argmin_rule
    argmin_rule(ctx)
