"""Standard mutation operators on one function (comparison flip, arithmetic swap, constant +1, boolean flip, statement deletion,
condition negation, break/continue deletion), addressed by the index of the node in `ast.walk(fn)`.  Used by the self-validation of
the thorough tier and by the developer surveys under tools/."""
from __future__ import annotations

import ast

CMP = {ast.Lt: ast.LtE, ast.LtE: ast.Lt, ast.Gt: ast.GtE, ast.GtE: ast.Gt, ast.Eq: ast.NotEq, ast.NotEq: ast.Eq}
BIN = {ast.Add: ast.Sub, ast.Sub: ast.Add, ast.Mult: ast.FloorDiv, ast.Div: ast.Mult, ast.FloorDiv: ast.Div}


def mutants_of(fn: ast.FunctionDef):
    """Yields (description, apply(tree_copy_fn) -> None) as index-addressed edits."""
    nodes = list(ast.walk(fn))
    out = []
    for i, n in enumerate(nodes):
        if isinstance(n, ast.Compare) and len(n.ops) == 1 and type(n.ops[0]) in CMP:
            out.append((i, "cmp", f"L{n.lineno}: {ast.unparse(n)} -> {CMP[type(n.ops[0])].__name__}"))
        if isinstance(n, ast.BinOp) and type(n.op) in BIN:
            out.append((i, "bin", f"L{n.lineno}: {ast.unparse(n)} -> {BIN[type(n.op)].__name__}"))
        if isinstance(n, ast.AugAssign) and type(n.op) in BIN:
            out.append((i, "aug", f"L{n.lineno}: {ast.unparse(n)} -> {BIN[type(n.op)].__name__}"))
        if isinstance(n, ast.Constant) and isinstance(n.value, int) and not isinstance(n.value, bool) and -2 <= n.value <= 24:
            out.append((i, "const", f"L{n.lineno}: constant {n.value} -> {n.value + 1}"))
        if isinstance(n, ast.Constant) and isinstance(n.value, bool):
            out.append((i, "bool", f"L{n.lineno}: constant {n.value} -> {not n.value}"))
        if isinstance(n, (ast.Expr, ast.Assign, ast.AugAssign)) and not (isinstance(n, ast.Expr) and isinstance(n.value, ast.Constant)):
            out.append((i, "del", f"L{n.lineno}: delete `{ast.unparse(n)[:70]}`"))
        if isinstance(n, (ast.If, ast.While)):
            out.append((i, "neg", f"L{n.lineno}: negate `{ast.unparse(n.test)[:70]}`"))
        if isinstance(n, (ast.Continue, ast.Break)):
            out.append((i, "delflow", f"L{n.lineno}: delete {type(n).__name__.lower()}"))
    return out


def apply(fn: ast.FunctionDef, idx: int, kind: str):
    nodes = list(ast.walk(fn))
    n = nodes[idx]
    if kind == "cmp":
        n.ops = [CMP[type(n.ops[0])]()]
    elif kind in ("bin", "aug"):
        n.op = BIN[type(n.op)]()
    elif kind == "const":
        n.value = n.value + 1
    elif kind == "bool":
        n.value = not n.value
    elif kind == "neg":
        n.test = ast.UnaryOp(op=ast.Not(), operand=n.test)
    elif kind in ("del", "delflow"):
        # replace the statement by `pass` in its parent block
        for p in ast.walk(fn):
            for fld in ("body", "orelse", "finalbody"):
                b = getattr(p, fld, None)
                if isinstance(b, list) and n in b:
                    b[b.index(n)] = ast.copy_location(ast.Pass(), n)
                    return


