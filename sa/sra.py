"""Scalar replacement of tuple locals (load-time canonical form, before helpers are inlined).

`sig = (n, d)` ... `f(*sig)`, `a, b = sig`, `sig != other`, `sig[0]`, `cur = sig` is a pair of plain locals written with one name.
A local qualifies when every binding is a tuple display of one fixed length (or a copy of another qualifying local) and every
read is one of those five structural uses -- a tuple that is stored, passed, returned or used as a key stays a tuple.  The
components are named `<name>__0`, `<name>__1`, ...; a comparison becomes the component-wise or / and."""
from __future__ import annotations

import ast


def _scope_nodes(fn):
    """nodes of fn excluding nested function / lambda / class bodies (their names are reported separately)"""
    out, nested = [], []
    stack = list(ast.iter_child_nodes(fn))
    while stack:
        n = stack.pop()
        if isinstance(n, (ast.FunctionDef, ast.AsyncFunctionDef, ast.Lambda, ast.ClassDef)):
            nested.append(n)
            continue
        out.append(n)
        stack.extend(ast.iter_child_nodes(n))
    return out, nested


def split_tuple_locals(tree: ast.AST) -> None:
    for fn in [n for n in ast.walk(tree) if isinstance(n, (ast.FunctionDef, ast.AsyncFunctionDef))]:
        _split_in(fn)


def _split_in(fn) -> None:
    nodes, nested = _scope_nodes(fn)
    banned = {a.arg for a in ast.walk(fn.args) if isinstance(a, ast.arg)}
    for n in nested:
        banned |= {x.id for x in ast.walk(n) if isinstance(x, ast.Name)}
    for n in nodes:
        if isinstance(n, (ast.Global, ast.Nonlocal)):
            banned |= set(n.names)
        if isinstance(n, (ast.ListComp, ast.SetComp, ast.DictComp, ast.GeneratorExp)):
            banned |= {x.id for x in ast.walk(n) if isinstance(x, ast.Name)}
    parent = {}
    for n in [fn] + nodes:
        for c in ast.iter_child_nodes(n):
            parent[id(c)] = n
    stores: dict[str, list] = {}
    loads: dict[str, list] = {}
    for n in nodes:
        if isinstance(n, ast.Name):
            (stores if isinstance(n.ctx, (ast.Store, ast.Del)) else loads).setdefault(n.id, []).append(n)
    width: dict[str, int] = {}
    copies: dict[str, set] = {}
    cand = set()
    for nm, sts in stores.items():
        if nm in banned:
            continue
        w = None
        ok = True
        for st in sts:
            par = parent.get(id(st))
            if not (isinstance(par, ast.Assign) and len(par.targets) == 1 and par.targets[0] is st):
                ok = False
                break
            v = par.value
            if isinstance(v, ast.Tuple) and not any(isinstance(e, ast.Starred) for e in v.elts) and len(v.elts) >= 2:
                if w not in (None, len(v.elts)) or any(isinstance(x, ast.Name) and x.id == nm for x in ast.walk(v)):
                    ok = False
                    break
                w = len(v.elts)
            elif isinstance(v, ast.Name):
                copies.setdefault(nm, set()).add(v.id)
            else:
                ok = False
                break
        if ok:
            cand.add(nm)
            if w is not None:
                width[nm] = w

    def structural(ld) -> bool:
        par = parent.get(id(ld))
        if isinstance(par, ast.Subscript) and par.value is ld and isinstance(par.ctx, ast.Load) and isinstance(par.slice, ast.Constant) \
                and isinstance(par.slice.value, int) and not isinstance(par.slice.value, bool):
            return True
        if isinstance(par, ast.Starred) and isinstance(parent.get(id(par)), ast.Call) and par in parent[id(par)].args:
            return True
        if isinstance(par, ast.Assign) and par.value is ld and len(par.targets) == 1:
            t = par.targets[0]
            if isinstance(t, ast.Tuple) and all(isinstance(e, ast.Name) for e in t.elts):
                return True
            if isinstance(t, ast.Name):
                return True                      # a copy; the target must qualify too (checked below)
        if isinstance(par, ast.Compare) and len(par.ops) == 1 and isinstance(par.ops[0], (ast.Eq, ast.NotEq)):
            other = par.comparators[0] if par.left is ld else par.left
            if isinstance(other, (ast.Name, ast.Tuple)):
                return True
        return False
    changed = True
    while changed:
        changed = False
        for nm in sorted(cand):
            bad = nm not in width and not copies.get(nm)
            for src_ in copies.get(nm, ()):
                if src_ not in cand:
                    bad = True
            for ld in loads.get(nm, []):
                if not structural(ld):
                    bad = True
                    break
                par = parent.get(id(ld))
                if isinstance(par, ast.Assign) and isinstance(par.targets[0], ast.Name) and par.targets[0].id not in cand:
                    bad = True
                if isinstance(par, ast.Assign) and isinstance(par.targets[0], ast.Tuple) and nm in width and len(par.targets[0].elts) != width[nm]:
                    bad = True
                if isinstance(par, ast.Compare):
                    other = par.comparators[0] if par.left is ld else par.left
                    if isinstance(other, ast.Name) and other.id not in cand:
                        bad = True
                    if isinstance(other, ast.Tuple) and (any(isinstance(e, ast.Starred) for e in other.elts) or (nm in width and len(other.elts) != width[nm])):
                        bad = True
                if isinstance(par, ast.Subscript) and nm in width and not (0 <= par.slice.value < width[nm]):
                    bad = True
            if not loads.get(nm):
                bad = True
            if bad:
                cand.discard(nm)
                changed = True
        # widths flow along copies
        for nm in sorted(cand):
            for src_ in copies.get(nm, ()):
                for a_, b_ in ((nm, src_), (src_, nm)):
                    if a_ not in width and b_ in width:
                        width[a_] = width[b_]
                        changed = True
                if nm in width and src_ in width and width[nm] != width[src_]:
                    cand.discard(nm)
                    changed = True
    cand = {nm for nm in cand if nm in width}
    if not cand:
        return
    taken = {x.id for x in ast.walk(fn) if isinstance(x, ast.Name)}
    if any(f"{nm}__{i}" in taken for nm in cand for i in range(width[nm])):
        return

    def comp(nm, i, ctx, at):
        return ast.copy_location(ast.Name(id=f"{nm}__{i}", ctx=ctx), at)

    class Rewrite(ast.NodeTransformer):
        def visit_FunctionDef(self, n):
            return n if n is not fn else self.generic_visit(n)
        visit_AsyncFunctionDef = visit_FunctionDef

        def visit_Lambda(self, n):
            return n

        def visit_ClassDef(self, n):
            return n

        def visit_Assign(self, n):
            t = n.targets[0] if len(n.targets) == 1 else None
            if isinstance(t, ast.Name) and t.id in cand:
                w = width[t.id]
                if isinstance(n.value, ast.Tuple):
                    vals = [self.visit(e) for e in n.value.elts]
                else:
                    vals = [comp(n.value.id, i, ast.Load(), n.value) for i in range(w)]
                return [ast.copy_location(ast.Assign(targets=[comp(t.id, i, ast.Store(), t)], value=vals[i], type_comment=None), n) for i in range(w)]
            if isinstance(t, ast.Tuple) and isinstance(n.value, ast.Name) and n.value.id in cand:
                return [ast.copy_location(ast.Assign(targets=[e], value=comp(n.value.id, i, ast.Load(), n.value), type_comment=None), n) for i, e in enumerate(t.elts)]
            return self.generic_visit(n)

        def visit_Subscript(self, n):
            if isinstance(n.value, ast.Name) and n.value.id in cand and isinstance(n.ctx, ast.Load) and isinstance(n.slice, ast.Constant):
                return comp(n.value.id, n.slice.value, ast.Load(), n)
            return self.generic_visit(n)

        def visit_Call(self, n):
            args = []
            for a in n.args:
                if isinstance(a, ast.Starred) and isinstance(a.value, ast.Name) and a.value.id in cand:
                    args += [comp(a.value.id, i, ast.Load(), a) for i in range(width[a.value.id])]
                else:
                    args.append(a)
            n.args = args
            return self.generic_visit(n)

        def visit_Compare(self, n):
            if len(n.ops) == 1 and isinstance(n.ops[0], (ast.Eq, ast.NotEq)):
                l_, r_ = n.left, n.comparators[0]
                if any(isinstance(x, ast.Name) and x.id in cand for x in (l_, r_)):
                    w = width[l_.id] if isinstance(l_, ast.Name) and l_.id in cand else width[r_.id]

                    def part(x, i):
                        if isinstance(x, ast.Name):
                            return comp(x.id, i, ast.Load(), x)
                        return self.visit(x.elts[i])
                    eq = isinstance(n.ops[0], ast.Eq)
                    leaves = [ast.copy_location(ast.Compare(left=part(l_, i), ops=[ast.Eq() if eq else ast.NotEq()], comparators=[part(r_, i)]), n) for i in range(w)]
                    return ast.copy_location(ast.BoolOp(op=ast.And() if eq else ast.Or(), values=leaves), n)
            return self.generic_visit(n)
    Rewrite().visit(fn)
    ast.fix_missing_locations(fn)
