"""TS -- typestate analysis of the two views of `Sequence` (property C04).

Concrete protocol (sequence.py): a Sequence stores `_abs`, `_rel` and the flags `_abs_stale`, `_rel_stale`.
Invariant INV maintained by every public operation:
    (1) not both flags stale                      (the sequence stays readable)
    (2) flag of view v fresh  =>  the object stored in v represents the current truth ("valid")
The abstract state of one tracked Sequence object is a *set of worlds*; a world is
    (abs_flag, rel_flag, abs_valid, rel_valid, env)
with flags in {F,S}, valid in {True,False} and env the abstract values of locals/parameters.  Sets of worlds are
joined by union (a fully disjunctive, finite domain: no correlation is lost, no widening is needed).

The transfer functions are computed from the source: reading the `abs`/`rel` properties and calling other
methods of the class applies their own summaries (computed on demand by the same interpreter); calls on a view
object are classified by the EFF engine (MUTATE / REORDER / PURE); stores to the four private attributes update
the world.  If every public method maps INV-worlds to INV-worlds, so does every finite history (induction).
"""
from __future__ import annotations

import ast
from dataclasses import dataclass

from ..absint import AbsInt
from ..astutil import attr_chain, call_method, src, short
from ..model import Program, FuncInfo, AnalysisError, walk_local
from .effects import Effects

F, S = "F", "S"
VIEWS = ("abs", "rel")

# abstract values --------------------------------------------------------------------------------
NONE = ("none",)
OTHER = ("other",)
NEWSEQ = ("newseq",)          # a freshly constructed view object (new content, becomes the truth when stored)
TRACKED = ("tracked",)        # the tracked Sequence object itself


def VIEW(v, valid, raw=False):
    return ("view", v, bool(valid), bool(raw))


def MSGS(v):
    return ("msgs", v)


def MSG(v):
    return ("msg", v)


@dataclass(frozen=True)
class World:
    fa: str
    fr: str
    va: bool
    vr: bool
    env: tuple = ()

    def flag(self, v):
        return self.fa if v == "abs" else self.fr

    def valid(self, v):
        return self.va if v == "abs" else self.vr

    def set(self, **kw):
        d = dict(fa=self.fa, fr=self.fr, va=self.va, vr=self.vr, env=self.env)
        d.update(kw)
        return World(**d)

    def set_flag(self, v, f):
        return self.set(fa=f) if v == "abs" else self.set(fr=f)

    def set_valid(self, v, b):
        return self.set(va=b) if v == "abs" else self.set(vr=b)

    def get(self, name):
        for k, val in self.env:
            if k == name:
                return val
        return None

    def bind(self, name, val):
        e = tuple((k, x) for k, x in self.env if k != name) + ((name, val),)
        return self.set(env=tuple(sorted(e)))

    def core(self):
        return (self.fa, self.fr, self.va, self.vr)

    def inv_ok(self) -> tuple[bool, str]:
        if self.fa == S and self.fr == S:
            return False, "both views stale (sequence unreadable)"
        if self.fa == F and not self.va:
            return False, "absolute view marked fresh but it does not reflect the latest content"
        if self.fr == F and not self.vr:
            return False, "relative view marked fresh but it does not reflect the latest content"
        return True, ""


def other(v):
    return "rel" if v == "abs" else "abs"


PRE_STATES = {
    "abs fresh, rel stale": World(F, S, True, False),
    "abs stale, rel fresh": World(S, F, False, True),
    "abs fresh, rel fresh": World(F, F, True, True),
}


class Problem:
    def __init__(self, rule, node, msg, construct):
        self.rule, self.node, self.msg, self.construct = rule, node, msg, construct

    def __repr__(self):
        return f"{self.rule}@{getattr(self.node, 'lineno', '?')}: {self.msg}"


class TypestateEngine:
    def __init__(self, program: Program, cls: str = "Sequence"):
        self.p = program
        self.cls = cls
        self.ci = program.cls(cls)
        self.eff = Effects(program)
        self.flag_attr = {"abs": "_abs_stale", "rel": "_rel_stale"}
        self.store_attr = {"abs": "_abs", "rel": "_rel"}
        self.view_class = {}
        for v in VIEWS:
            acc = self.ci.methods.get(v)
            if acc is None or not acc.is_property:
                raise AnalysisError(f"{cls}.{v}: accessor property not found")
            ann = acc.node.returns
            self.view_class[v] = ann.id if isinstance(ann, ast.Name) else (ann.value if isinstance(ann, ast.Constant) else None)
            if self.view_class[v] not in program.classes:
                raise AnalysisError(f"{cls}.{v}: return annotation does not name a repository class")
        self.conv = {}  # method name on a view class that converts to the other view
        for v in VIEWS:
            for m, fi in program.classes[self.view_class[v]].methods.items():
                ann = fi.node.returns
                name = ann.id if isinstance(ann, ast.Name) else (ann.value if isinstance(ann, ast.Constant) else None)
                if name == self.view_class[other(v)] and not fi.params[1:]:
                    self.conv[(v, m)] = other(v)
        self._summaries: dict[tuple, tuple[frozenset, list]] = {}
        self._active: set = set()
        self.call_sites_classified: list[tuple[str, int, str, str]] = []

    # ------------------------------------------------------------------------------------------
    def summary(self, method: str, core: tuple, args: tuple = ()) -> tuple[frozenset, list[Problem]]:
        """Post-cores of `method` when entered in world-core `core` (+ problems found inside)."""
        key = (method, core, args)
        if key in self._summaries:
            return self._summaries[key]
        if key in self._active:
            return frozenset([core]), []
        self._active.add(key)
        fi = self.ci.methods[method]
        it = _Interp(self, fi, tracked=["self"])
        w = World(*core)
        params = fi.params[1:]
        for i, pn in enumerate(params):
            w = w.bind(pn, args[i] if i < len(args) else OTHER)
        exits, problems = it.run(frozenset([w]))
        post = frozenset(x.core() for _, x, how in exits if how != "raise")
        self._active.discard(key)
        self._summaries[key] = (post, problems)
        return post, problems

    def analyse_method(self, method: str, pre: World, args: tuple = ()):
        fi = self.ci.methods[method]
        it = _Interp(self, fi, tracked=["self"])
        w = pre
        for i, pn in enumerate(fi.params[1:]):
            w = w.bind(pn, args[i] if i < len(args) else OTHER)
        exits, problems = it.run(frozenset([w]))
        return exits, problems, it

    def analyse_client(self, fi: FuncInfo, chain: list[str], pre: World, bind: dict | None = None):
        it = _Interp(self, fi, tracked=chain)
        w = pre
        for k, v in (bind or {}).items():
            w = w.bind(k, v)
        exits, problems = it.run(frozenset([w]))
        return exits, problems, it


class _Interp(AbsInt):
    def __init__(self, eng: TypestateEngine, fi: FuncInfo, tracked: list[str]):
        super().__init__()
        self.e = eng
        self.fi = fi
        self.tracked = tracked
        self.problems: list[Problem] = []
        self.try_finally_depth = 0
        self.yield_exits: list[tuple[ast.AST, World]] = []
        self._yield_stack: list[list] = []
        self.is_gen = fi.is_generator
        self.alias_tracked: set[str] = set()
        # `self.sequence = sequence` style aliasing in clients: a parameter that is stored into the tracked chain
        if tracked != ["self"]:
            for n in walk_local(fi.node):
                if isinstance(n, (ast.Assign, ast.AnnAssign)):
                    tg = n.targets if isinstance(n, ast.Assign) else [n.target]
                    if n.value is not None and isinstance(n.value, ast.Name) and any(attr_chain(t) == tracked for t in tg):
                        self.alias_tracked.add(n.value.id)

    # -- framework glue --------------------------------------------------------------------------
    def join(self, a, b):
        return a | b

    def equal(self, a, b):
        return a == b

    def run(self, entry: frozenset):
        end, rets, raises = self.run_function(self.fi.node, entry)
        exits = []
        if end is not None:
            for w in end:
                exits.append((None, w, "fall-through"))
        for node, st in rets:
            for w in st:
                exits.append((node, w, "return"))
        for node, st in raises:
            for w in st:
                exits.append((node, w, "raise"))
        for node, w in self.yield_exits:
            exits.append((node, w, "generator closed at yield"))
        return exits, self.problems

    def problem(self, rule, node, msg, construct):
        if not any(p.rule == rule and p.construct == construct and p.msg == msg for p in self.problems):
            self.problems.append(Problem(rule, node, msg, construct))

    def _try(self, s, st):
        if not s.finalbody:
            return super()._try(s, st)
        self.try_finally_depth += 1
        self._yield_stack.append([])
        try:
            out = super()._try(s, st)
        finally:
            self.try_finally_depth -= 1
            ys = self._yield_stack.pop()
        if ys:
            # generator closed (or exception thrown in) at a yield inside this try: only the finally block runs
            from ..absint import _Frame
            self._frames.append(_Frame())
            after = self.block(s.finalbody, frozenset(w for _, w in ys))
            self._frames.pop()
            for w in (after or ()):
                if self._yield_stack:
                    self._yield_stack[-1].append((ys[0][0], w))
                else:
                    self.yield_exits.append((ys[0][0], w))
        return out

    def on_return(self, node, st):
        pass

    # -- expression evaluation over a set of worlds -------------------------------------------------
    def is_tracked(self, e: ast.AST) -> bool:
        ch = attr_chain(e)
        if ch is None:
            return False
        if ch == self.tracked:
            return True
        return len(ch) == 1 and ch[0] in self.alias_tracked

    def ev(self, e: ast.AST | None, worlds: frozenset) -> list[tuple[World, tuple]]:
        """Evaluate expression in every world: list of (world after side effects, abstract value)."""
        out: list[tuple[World, tuple]] = []
        if e is None:
            return [(w, NONE) for w in worlds]
        for w in worlds:
            out.extend(self.ev1(e, w))
        return out

    def ev_seq(self, exprs: list[ast.AST], w: World) -> list[tuple[World, list]]:
        res = [(w, [])]
        for x in exprs:
            nxt = []
            for cw, vals in res:
                for w2, v in self.ev1(x, cw):
                    nxt.append((w2, vals + [v]))
            res = nxt
        return res

    def ev1(self, e: ast.AST, w: World) -> list[tuple[World, tuple]]:
        eng = self.e
        if isinstance(e, ast.Constant):
            return [(w, NONE if e.value is None else OTHER)]
        if isinstance(e, ast.Name):
            if self.is_tracked(e):
                return [(w, TRACKED)]
            v = w.get(e.id)
            return [(w, v if v is not None else OTHER)]
        if isinstance(e, ast.Attribute):
            if self.is_tracked(e):
                return [(w, TRACKED)]
            res = []
            for w1, base in self.ev1(e.value, w):
                if base == TRACKED:
                    res.extend(self.tracked_attr(e, e.attr, w1))
                elif base[0] == "view" and e.attr == "_messages":
                    self.check_raw_use(e, base, w1)
                    res.append((w1, MSGS(base[1])))
                else:
                    res.append((w1, OTHER))
            return res
        if isinstance(e, ast.Call):
            return self.ev_call(e, w)
        if isinstance(e, (ast.Yield,)):
            return self.ev_yield(e, w)
        if isinstance(e, ast.IfExp):
            res = []
            t, f = self.cond(e.test, frozenset([w]))
            if t:
                res.extend(self.ev(e.body, t))
            if f:
                res.extend(self.ev(e.orelse, f))
            return res
        if isinstance(e, (ast.ListComp, ast.SetComp, ast.GeneratorExp, ast.DictComp)):
            return self.ev_comp(e, w)
        if isinstance(e, ast.Lambda):
            return [(w, OTHER)]
        # generic: evaluate children left-to-right for side effects
        children = [c for c in ast.iter_child_nodes(e) if isinstance(c, ast.expr)]
        res = [(cw, OTHER) for cw, _ in self.ev_seq(children, w)]
        return res

    def ev_comp(self, e, w: World):
        # iterate generators for side effects (property reads, generator calls); element expr evaluated once
        ws = [w]
        for g in e.generators:
            nxt = []
            for cw in ws:
                for w2, itv in self.ev1(g.iter, cw):
                    w3 = w2
                    for t in ast.walk(g.target):
                        if isinstance(t, ast.Name):
                            w3 = w3.bind(t.id, MSG(itv[1]) if itv[0] == "msgs" else OTHER)
                    nxt.append(w3)
            ws = nxt
            for c in g.ifs:
                ws = [w2 for cw in ws for w2, _ in self.ev1(c, cw)]
        elts = [e.elt] if hasattr(e, "elt") else [e.key, e.value]
        out = []
        for cw in ws:
            for w2, _ in self.ev_seq(elts, cw):
                out.append((w2, OTHER))
        return out

    def tracked_attr(self, node: ast.Attribute, attr: str, w: World):
        eng = self.e
        for v in VIEWS:
            if attr == v:  # property read -> apply accessor summary
                post, probs = eng.summary(v, w.core())
                if not w.inv_ok()[0]:   # otherwise reported by the accessor's own analysis
                    for pr in probs:
                        self.problem(pr.rule, node, pr.msg, pr.construct)
                if w.fa == S and w.fr == S:
                    self.problem("TS2", node, f"view `{v}` read while both views are stale (raises SequenceException)",
                                 f"read of .{v} with both views stale")
                    return []
                res = []
                for c in post:
                    w2 = World(*c, env=w.env)
                    res.append((w2, VIEW(v, w2.valid(v))))
                return res
            if attr == eng.store_attr[v]:
                return [(w, VIEW(v, w.valid(v), raw=True))]
            if attr == eng.flag_attr[v]:
                return [(w, ("flag", v))]
        return [(w, OTHER)]

    def check_raw_use(self, node, val, w: World):
        if val[0] == "view" and val[3] and not val[2]:
            self.problem("TS5", node, f"stored `{val[1]}` object used directly while it may be out of date "
                                      f"(bypasses the refreshing accessor)",
                         f"raw use of _{val[1]} while stale")

    def ev_call(self, c: ast.Call, w: World):
        eng = self.e
        recv, name = call_method(c)
        args = list(c.args) + [k.value for k in c.keywords]
        # constructor of the tracked class: Sequence(...), self.__class__(...)
        ch = attr_chain(c.func)
        is_ctor = (recv is None and name == eng.cls) or (ch is not None and ch[-1] == "__class__" and self.tracked == ["self"]
                                                         and ch[:-1] == ["self"])
        if is_ctor:
            return self.ev_ctor(c, w)
        if recv is None:
            res = []
            for w2, vals in self.ev_seq(args, w):
                val = OTHER
                if name in eng.p.classes and name in eng.view_class.values():
                    val = NEWSEQ
                res.append((w2, val))
            return res
        res = []
        for w1, rv in self.ev1(recv, w):
            for w2, vals in self.ev_seq(args, w1):
                res.extend(self.apply_call(c, name, rv, vals, w2))
        return res

    def ev_ctor(self, c: ast.Call, w: World):
        eng = self.e
        init = eng.ci.methods.get("__init__")
        params = init.params[1:] if init else []
        res = []
        exprs = list(c.args) + [k.value for k in c.keywords]
        for w2, vals in self.ev_seq(exprs, w):
            bound = {p: NONE for p in params}
            for i, a in enumerate(c.args):
                if i < len(params):
                    bound[params[i]] = vals[i]
            for j, k in enumerate(c.keywords):
                if k.arg in bound:
                    bound[k.arg] = vals[len(c.args) + j]
            # content validity of what is handed to the new object
            def norm(v):
                if v == NONE:
                    return NONE
                if v[0] == "view":
                    return ("content", v[2])
                return ("content", True)
            argt = tuple(norm(bound[p]) for p in params)
            if self.fi.name in ("copy", "__copy__", "__deepcopy__") and self.fi.cls == eng.cls and params and all(a == NONE for a in argt):
                # a copy built from no view at all is an empty object: the source's content is dropped
                self.problem("TS9", c, f"{eng.cls}.copy can construct its result from no view at all (both arguments None): the copy is empty",
                             "copy() hands neither view to the new object")
            post, probs = eng.summary("__init__", (S, S, False, False), argt)
            for pr in probs:
                self.problem(pr.rule, c, pr.msg, pr.construct)
            for core in post:
                ok, why = World(*core).inv_ok()
                if not ok:
                    self.problem("TS9", c, f"new {eng.cls} object constructed here violates the view invariant: {why}",
                                 f"constructor call with {tuple(('None' if a == NONE else ('valid' if a[1] else 'stale')) for a in argt)}")
            res.append((w2, OTHER))
        return res

    def apply_call(self, c: ast.Call, name: str, rv: tuple, vals: list, w: World):
        eng = self.e
        if rv == TRACKED:
            m = eng.p.lookup_method(eng.cls, name)
            if m is None:
                return [(w, OTHER)]
            if m.is_static:
                return [(w, OTHER)]
            post, probs = eng.summary(name, w.core(), tuple(_argsig(v) for v in vals))
            if not w.inv_ok()[0]:   # otherwise reported by the callee's own analysis from that pre-state
                for pr in probs:
                    self.problem(pr.rule, c, pr.msg, pr.construct)
            val = OTHER
            if m.is_generator:
                val = ("gen", name)
            return [(World(*core, env=w.env), val) for core in post]
        if rv[0] == "view":
            v = rv[1]
            self.check_raw_use(c, rv, w)
            vc = eng.view_class[v]
            kind = eng.eff.classify(vc, name) if eng.p.lookup_method(vc, name) else "PURE"
            eng.call_sites_classified.append((self.fi.qualname, c.lineno, f"{vc}.{name}", kind))
            w2 = w
            if kind == "MUTATE":
                # the truth moves to view v (if v itself was valid); the other view is outdated
                w2 = w2.set_valid(other(v), False)
            if (v, name) in eng.conv:
                return [(w2, VIEW(eng.conv[(v, name)], rv[2]))]
            if name == "copy":
                return [(w2, VIEW(v, rv[2]))]
            return [(w2, OTHER)]
        if rv == NEWSEQ:
            return [(w, OTHER)]
        return [(w, OTHER)]

    def ev_yield(self, e: ast.Yield, w: World):
        res = []
        for w1, val in self.ev1(e.value, w) if e.value is not None else [(w, OTHER)]:
            if val[0] == "msg":
                v = val[1]
                if w1.flag(other(v)) != S:
                    self.problem("TS6", e, f"message of the {v} view is handed out for editing while the {other(v)} view "
                                           f"is still marked fresh (an edit would not be visible through it)",
                                 f"yield of internal {v} message with {other(v)} view not invalidated")
                # after resumption: the consumer may have edited the message and touched the object in any order
                for fo in (F, S):
                    w2 = w1.set_flag(v, F).set_valid(v, True).set_flag(other(v), fo).set_valid(other(v), False)
                    res.append((w2, OTHER))
                    if self._yield_stack:
                        self._yield_stack[-1].append((e, w2))
                    else:
                        self.yield_exits.append((e, w2))
            else:
                res.append((w1, OTHER))
        return res

    # -- statements ----------------------------------------------------------------------------------
    def stmt(self, s: ast.stmt, st: frozenset):
        if isinstance(s, ast.Expr):
            return frozenset(w for w, _ in self.ev(s.value, st)) or None
        if isinstance(s, (ast.Assign, ast.AnnAssign)):
            if isinstance(s, ast.AnnAssign) and s.value is None:
                return st
            targets = s.targets if isinstance(s, ast.Assign) else [s.target]
            out = set()
            for w, val in self.ev(s.value, st):
                ws = [w]
                for t in targets:
                    ws = [w3 for w2 in ws for w3 in self.assign(t, val, s.value, w2, s)]
                out.update(ws)
            return frozenset(out) or None
        if isinstance(s, ast.AugAssign):
            out = set()
            for w, _ in self.ev(s.value, st):
                if isinstance(s.target, ast.Name):
                    w = w.bind(s.target.id, OTHER)
                out.add(w)
            return frozenset(out) or None
        if isinstance(s, ast.Assert):
            t, _ = self.cond(s.test, st)
            return t
        return st

    def assign(self, t: ast.expr, val: tuple, value_node: ast.expr, w: World, stmt: ast.stmt) -> list[World]:
        eng = self.e
        if isinstance(t, ast.Name):
            return [w.bind(t.id, val)]
        if isinstance(t, (ast.Tuple, ast.List)):
            for x in ast.walk(t):
                if isinstance(x, ast.Name):
                    w = w.bind(x.id, OTHER)
            return [w]
        if isinstance(t, ast.Attribute) and self.is_tracked(t.value):
            for v in VIEWS:
                if t.attr == eng.flag_attr[v]:
                    if isinstance(value_node, ast.Constant) and isinstance(value_node.value, bool):
                        return [w.set_flag(v, S if value_node.value else F)]
                    return [w.set_flag(v, S), w.set_flag(v, F)]
                if t.attr == eng.store_attr[v]:
                    if val == NONE:
                        return [w.set_valid(v, False)]
                    if val[0] == "view":
                        return [w.set_valid(v, val[2])]
                    if val[0] == "content":
                        return [w.set_valid(v, val[1])]
                    # a new object: its content becomes the truth, the other view is outdated
                    return [w.set_valid(v, True).set_valid(other(v), False)]
            return [w]
        if isinstance(t, ast.Attribute):
            # attribute store on a message of a view = content mutation through that view
            res = []
            for w1, base in self.ev1(t.value, w):
                if base[0] == "msg":
                    w1 = w1.set_valid(other(base[1]), False)
                res.append(w1)
            return res
        if isinstance(t, ast.Subscript):
            return [w2 for w2, _ in self.ev1(t.value, w)]
        return [w]

    def for_iter(self, node: ast.For, st: frozenset):
        out = set()
        for w, val in self.ev(node.iter, st):
            out.add(w.bind("$iter%d" % node.lineno, val))
        return frozenset(out)

    def for_bind(self, node: ast.For, st: frozenset):
        out = set()
        for w in st:
            itv = w.get("$iter%d" % node.lineno) or OTHER
            elem = MSG(itv[1]) if itv[0] == "msgs" else OTHER
            w2 = w
            if isinstance(node.target, ast.Name):
                w2 = w2.bind(node.target.id, elem)
            else:
                for x in ast.walk(node.target):
                    if isinstance(x, ast.Name):
                        w2 = w2.bind(x.id, OTHER)
            out.add(w2)
        return frozenset(out)

    def cond(self, test: ast.expr, st: frozenset):
        t, f = set(), set()
        for w in st:
            for w2, truth in self.ev_test(test, w):
                if truth in (True, None):
                    t.add(w2)
                if truth in (False, None):
                    f.add(w2)
        return (frozenset(t) or None), (frozenset(f) or None)

    def ev_test(self, e: ast.expr, w: World) -> list[tuple[World, bool | None]]:
        eng = self.e
        if isinstance(e, ast.UnaryOp) and isinstance(e.op, ast.Not):
            return [(w2, (None if b is None else not b)) for w2, b in self.ev_test(e.operand, w)]
        if isinstance(e, ast.BoolOp):
            is_and = isinstance(e.op, ast.And)
            res = [(w, True if is_and else False)]
            for v in e.values:
                nxt = []
                for cw, acc in res:
                    # short circuit
                    if (is_and and acc is False) or (not is_and and acc is True):
                        nxt.append((cw, acc))
                        continue
                    for w2, b in self.ev_test(v, cw):
                        if is_and:
                            r = False if b is False else (None if (b is None or acc is None) else True)
                        else:
                            r = True if b is True else (None if (b is None or acc is None) else False)
                        nxt.append((w2, r))
                res = nxt
            return res
        if isinstance(e, ast.Compare) and len(e.ops) == 1 and isinstance(e.ops[0], (ast.Is, ast.IsNot)) \
                and isinstance(e.comparators[0], ast.Constant) and e.comparators[0].value is None:
            out = []
            for w2, val in self.ev1(e.left, w):
                if val == NONE:
                    b = True
                elif val == OTHER:
                    b = None
                else:
                    b = False
                if isinstance(e.ops[0], ast.IsNot) and b is not None:
                    b = not b
                out.append((w2, b))
            return out
        out = []
        for w2, val in self.ev1(e, w):
            if val[0] == "flag":
                out.append((w2, w2.flag(val[1]) == S))
            elif val == NONE:
                out.append((w2, False))
            else:
                out.append((w2, None))
        return out


def _argsig(v: tuple) -> tuple:
    if v == NONE:
        return NONE
    if v[0] == "view":
        return ("content", v[2])
    return OTHER


def check_wrappers(ctx, methods: list[str], rule: str = "VIEW") -> None:
    """Typestate obligations (TS1/TS3 + problems) for the given Sequence wrapper methods only: the operation's effect must be
    visible through both views afterwards (the other view invalidated), from each of the 3 valid freshness states."""
    eng = TypestateEngine(ctx.p, "Sequence")
    for m in methods:
        fi = eng.ci.methods.get(m)
        if fi is None:
            raise AnalysisError(f"Sequence.{m} not found")
        ctx.analysed(fi)
        for pname, pre in PRE_STATES.items():
            exits, problems, _ = eng.analyse_method(m, pre)
            label = f"Sequence.{m} from [{pname}]"
            bad = False
            for pr in problems:
                bad = True
                ctx.violation(rule, label, function=fi.qualname, construct=pr.construct, message=pr.msg, file=fi.file, node=pr.node)
            for node, w, how in exits:
                ok, why = w.inv_ok()
                if not ok:
                    bad = True
                    ctx.violation(rule, label, function=fi.qualname, construct=f"exit state violates the view invariant: {why}",
                                  message=f"{label}: {why} on exit -- the operation's effect is not visible through both views "
                                          f"(a view that was not updated is still marked fresh, or both are stale)", file=fi.file,
                                  node=node if node is not None else fi.node)
            if not bad:
                ctx.ok(rule, label, "both views consistent afterwards")
