"""Shared extraction for the tokeniser properties (C01, C02, C03, C19): vocabulary/emitter templates per flag assignment,
prefix dispatch chains of detokenise / get_info, clock-effect summaries (CLK)."""
from __future__ import annotations

import ast
import itertools
import re

from ..astutil import attr_chain, call_method, enum_member, short, src, ancestors, flatten_boolop
from ..linear import Normaliser, Sym
from ..model import Program, FuncInfo, AnalysisError, walk_local
from .templates import StringInterp, FLAGS, TOK, parse_parts, show, emitter_domains

CLOCK = ("cur_time", "cur_time_bar", "cur_bar_capacity_remaining", "cur_bar_capacity_total")


def all_flag_assignments():
    for vals in itertools.product([True, False], repeat=len(FLAGS)):
        yield dict(zip(FLAGS, vals))


def flag_label(fl: dict) -> str:
    return ",".join(f"{k.replace('flag_', '')}={'T' if v else 'F'}" for k, v in fl.items())


# ------------------------------------------------------------------------------------------------ vocabulary
class VocabInterp(StringInterp):
    DOMAINS = {"step_sizes": "REST", "note_values": "VALUE", "velocity_bins": "VELOCITY"}

    def __init__(self, p, fi, flags):
        super().__init__(p, fi, flags, self._fd, out_lists=set(), dict_attr="dictionary")
        self.loopvars: dict[str, str] = {}

    def iter_domain(self, it: ast.AST, st) -> str | None:
        ch = attr_chain(it)
        if ch and len(ch) == 2 and ch[0] == "self" and ch[1] in self.DOMAINS:
            return self.DOMAINS[ch[1]]
        if isinstance(it, ast.Call) and isinstance(it.func, ast.Name) and it.func.id == "range":
            # bounds held in locals that are assigned once (`lo = self.pitch_range[0]`) are read as what they hold
            defs = getattr(self, "_defs", None)
            if defs is None:
                defs = {}
                for a_ in ast.walk(self.fi.node):
                    if isinstance(a_, ast.Assign) and len(a_.targets) == 1 and isinstance(a_.targets[0], ast.Name):
                        defs.setdefault(a_.targets[0].id, []).append(a_.value)
                self._defs = defs

            def rsrc(x):
                # source text with once-assigned locals replaced by the subscript / attribute they hold (no copying: the trees carry parent links)
                if isinstance(x, ast.Name) and len(defs.get(x.id, [])) == 1 and isinstance(defs[x.id][0], (ast.Subscript, ast.Attribute)):
                    return src(defs[x.id][0])
                if isinstance(x, ast.BinOp) and isinstance(x.op, (ast.Add, ast.Sub)):
                    return f"{rsrc(x.left)} {'+' if isinstance(x.op, ast.Add) else '-'} {rsrc(x.right)}"
                return src(x)
            a = [rsrc(x) for x in it.args]
            if a == ["self.num_tracks"] or a == ["0", "self.num_tracks"]:
                return "TRACK"
            if a == ["self.pitch_range[0]", "self.pitch_range[1] + 1"]:
                return "PITCH"
            if a == ["self.time_signature_range[0]", "self.time_signature_range[1] + 1"]:
                return "TSG"
            return f"RANGE({','.join(a)})"
        if isinstance(it, ast.ListComp) and len(it.generators) == 1 and not it.generators[0].ifs and isinstance(it.elt, ast.Name) \
                and isinstance(it.generators[0].target, ast.Name) and it.elt.id == it.generators[0].target.id:
            return self.iter_domain(it.generators[0].iter, st)
        if isinstance(it, ast.Call) and isinstance(it.func, ast.Name) and it.func.id in ("list", "sorted") and it.args:
            return self.iter_domain(it.args[0], st)
        return None

    def _fd(self, e, interp, st):
        if isinstance(e, ast.Name) and e.id in self.loopvars:
            return self.loopvars[e.id]
        if isinstance(e, ast.Call):
            recv, name = call_method(e)
            if isinstance(recv, ast.Name) and name == "pop" and len(e.args) == 1 and isinstance(e.args[0], ast.Constant) and e.args[0].value == 0 \
                    and isinstance(st.get(recv.id), tuple) and st[recv.id] and st[recv.id][0] == "$list":
                lst = st[recv.id][1]
                if not lst:
                    raise AnalysisError(f"{self.fi.qualname}: `{short(e)}` pops from an exhausted part list")
                st[recv.id] = ("$list", lst[1:])
                return lst[0]
        if isinstance(e, ast.Call) and isinstance(e.func, ast.Name) and e.func.id == "next" and len(e.args) == 1 and isinstance(e.args[0], ast.Name) \
                and isinstance(st.get(e.args[0].id), tuple) and st[e.args[0].id] and st[e.args[0].id][0] == "$list":
            lst = st[e.args[0].id][1]                  # `it = iter(parts)` ... `next(it)`: the parts taken from the front, one by one
            if not lst:
                raise AnalysisError(f"{self.fi.qualname}: `{short(e)}` takes from an exhausted part list")
            st[e.args[0].id] = ("$list", lst[1:])
            return lst[0]
        if isinstance(e, ast.Subscript) and isinstance(e.value, ast.Name) and isinstance(st.get(e.value.id), tuple) and st[e.value.id][0] == "$list" \
                and isinstance(e.slice, ast.Constant) and isinstance(e.slice.value, int) and 0 <= e.slice.value < len(st[e.value.id][1]):
            return st[e.value.id][1][e.slice.value]
        return f"UNKNOWN({short(e, 30)})"

    def other_assign(self, name, value, st):
        if isinstance(value, ast.List) and not value.elts:
            st[name] = ("$list", ())
        elif isinstance(value, ast.Call) and isinstance(value.func, ast.Name) and value.func.id in ("list", "iter", "tuple") and value.args \
                and isinstance(value.args[0], ast.Name) and isinstance(st.get(value.args[0].id), tuple):
            st[name] = st[value.args[0].id]

    def scan_calls(self, e, st):
        for c in ast.walk(e):
            if isinstance(c, ast.Call):
                recv, name = call_method(c)
                if isinstance(recv, ast.Name) and name == "append" and isinstance(st.get(recv.id), tuple) and st[recv.id][0] == "$list" and c.args \
                        and isinstance(c.args[0], ast.Tuple) and len(c.args[0].elts) == 3:
                    # a row (prefix, field width, values) of a table-driven vocabulary
                    pe, we, ve = c.args[0].elts
                    ps = self.strings(pe, st)
                    d = self.iter_domain(ve, st)
                    if ps is None or len(ps) != 1 or d is None or not (isinstance(we, ast.Constant) and isinstance(we.value, int) and not isinstance(we.value, bool)):
                        raise AnalysisError(f"{self.fi.qualname}: `{short(c)}`: part table row outside the interpreter's model")
                    st[recv.id] = ("$list", st[recv.id][1] + (("$row", next(iter(ps)), we.value, d),))
                    continue
                if isinstance(recv, ast.Name) and name == "append" and isinstance(st.get(recv.id), tuple) and st[recv.id][0] == "$list" and c.args:
                    d = self.iter_domain(c.args[0], st)
                    if d is None:
                        raise AnalysisError(f"{self.fi.qualname}: `{short(c)}`: part list element outside the interpreter's model")
                    st[recv.id] = ("$list", st[recv.id][1] + (d,))
        super().scan_calls(e, st)

    def for_iter(self, node, st):
        return st

    def strings(self, e, st):
        # `'-'.join(f'{prefix}_{value:0{width}}' for (prefix, width, _), value in zip(rows, combination))`: one piece per row of the part table
        if isinstance(e, ast.Call) and call_method(e)[1] == "join" and isinstance(call_method(e)[0], ast.Constant) and isinstance(call_method(e)[0].value, str) \
                and len(e.args) == 1 and isinstance(e.args[0], (ast.GeneratorExp, ast.ListComp)) and len(e.args[0].generators) == 1 and not e.args[0].generators[0].ifs:
            g = e.args[0].generators[0]
            it, tg = g.iter, g.target
            if isinstance(it, ast.Call) and isinstance(it.func, ast.Name) and it.func.id == "zip" and len(it.args) == 2 and all(isinstance(a, ast.Name) for a in it.args) \
                    and isinstance(tg, ast.Tuple) and len(tg.elts) == 2 and isinstance(tg.elts[0], ast.Tuple) and len(tg.elts[0].elts) == 3 \
                    and all(isinstance(x, ast.Name) for x in tg.elts[0].elts) and isinstance(tg.elts[1], ast.Name):
                rows, comb = st.get(it.args[0].id), st.get(it.args[1].id)
                if isinstance(rows, tuple) and rows and rows[0] == "$list" and isinstance(comb, tuple) and comb and comb[0] == "$list" \
                        and all(isinstance(r, tuple) and r and r[0] == "$row" for r in rows[1]) and len(comb[1]) == len(rows[1]):
                    pn, wn, _vn = (x.id for x in tg.elts[0].elts)
                    val = tg.elts[1].id
                    sep = call_method(e)[0].value
                    acc = ()
                    saved_lv, saved_int = dict(self.loopvars), dict(getattr(self, "int_locals", {}))
                    try:
                        for i, (row, dom) in enumerate(zip(rows[1], comb[1])):
                            st2 = dict(st)
                            st2[pn] = frozenset([row[1]])
                            self.int_locals = {**saved_int, wn: row[2]}
                            self.loopvars = {**saved_lv, val: dom}
                            piece = self.strings(e.args[0].elt, st2)
                            if piece is None or len(piece) != 1:
                                return None
                            if i and sep:
                                acc = acc + (("lit", sep),)
                            acc = acc + next(iter(piece))
                    finally:
                        self.loopvars, self.int_locals = saved_lv, saved_int
                    return frozenset([acc])
        return super().strings(e, st)

    def for_bind(self, node, st):
        st = super().for_bind(node, st)
        it = node.iter
        if isinstance(it, ast.Call) and attr_chain(it.func) == ["itertools", "product"] and len(it.args) == 1 and isinstance(it.args[0], ast.Starred) \
                and isinstance(it.args[0].value, ast.Name) and isinstance(st.get(it.args[0].value.id), tuple):
            if isinstance(node.target, ast.Name):
                st[node.target.id] = st[it.args[0].value.id]
            return st
        # product over the value lists of a part table: `itertools.product(*[values for _, _, values in rows])`
        if isinstance(it, ast.Call) and attr_chain(it.func) == ["itertools", "product"] and len(it.args) == 1 and isinstance(it.args[0], ast.Starred) \
                and isinstance(it.args[0].value, (ast.ListComp, ast.GeneratorExp)) and len(it.args[0].value.generators) == 1:
            lc = it.args[0].value
            g = lc.generators[0]
            rows = st.get(g.iter.id) if isinstance(g.iter, ast.Name) else None
            if isinstance(rows, tuple) and rows and rows[0] == "$list" and all(isinstance(r, tuple) and r and r[0] == "$row" for r in rows[1]) and not g.ifs \
                    and isinstance(g.target, ast.Tuple) and len(g.target.elts) == 3 and all(isinstance(x, ast.Name) for x in g.target.elts) \
                    and isinstance(lc.elt, ast.Name) and lc.elt.id == g.target.elts[2].id and isinstance(node.target, ast.Name):
                st[node.target.id] = ("$list", tuple(r[3] for r in rows[1]))
                return st
        d = self.iter_domain(it, st)
        if d is not None and isinstance(node.target, ast.Name):
            self.loopvars[node.target.id] = d
        return st


def vocabulary_templates(p: Program, flags: dict):
    fi = p.func(f"{TOK}._construct_dictionary")
    vi = VocabInterp(p, fi, flags)
    vi.run_function(fi.node, {})
    out = {}
    for t, node in vi.emitted.items():
        out[t] = node
    return out


def result_list_name(fn: ast.FunctionDef) -> str:
    """The local list a function returns (the token list of tokenise)."""
    for n in walk_local(fn):
        if isinstance(n, ast.Return) and isinstance(n.value, ast.Name):
            return n.value.id
    raise AnalysisError(f"{fn.name}: returned list not found")


def output_lists(fn: ast.FunctionDef) -> set[str]:
    """The returned token list and the local lists whose content is moved into it wholesale (`tokens.extend(batch)`,
    `tokens.extend(batch + [last])`, `tokens += batch`): a token appended to such a list is a token of the result."""
    res = result_list_name(fn)
    out = {res}
    changed = True
    while changed:
        changed = False
        for n in ast.walk(fn):
            arg = None
            if isinstance(n, ast.Call) and call_method(n)[1] == "extend" and isinstance(call_method(n)[0], ast.Name) and call_method(n)[0].id in out and n.args:
                arg = n.args[0]
            elif isinstance(n, ast.AugAssign) and isinstance(n.op, ast.Add) and isinstance(n.target, ast.Name) and n.target.id in out:
                arg = n.value
            elif isinstance(n, ast.Assign) and len(n.targets) == 1 and isinstance(n.targets[0], ast.Name) and n.targets[0].id in out and isinstance(n.value, ast.BinOp):
                arg = n.value                        # `_arg = batch + [last]` on its way into the result
            if arg is None:
                continue
            parts = [arg]
            while parts:
                x = parts.pop()
                if isinstance(x, ast.BinOp) and isinstance(x.op, ast.Add):
                    parts += [x.left, x.right]
                elif isinstance(x, ast.Name) and x.id not in out and any(
                        isinstance(a, ast.Assign) and len(a.targets) == 1 and isinstance(a.targets[0], ast.Name) and a.targets[0].id == x.id
                        and ((isinstance(a.value, ast.List) and not a.value.elts) or isinstance(a.value, ast.BinOp)) for a in ast.walk(fn)):
                    out.add(x.id)
                    changed = True
    return out


def emitter_templates(p: Program, flags: dict):
    fi = p.func(f"{TOK}.tokenise")
    doms = emitter_domains(p, fi)

    def fd(e, interp, st):
        if src(e) in doms:
            return doms[src(e)][0]
        return f"UNKNOWN({short(e, 30)})"
    params = fi.params
    extra = {}
    for nm in params:
        if nm == "insert_bar_token" or nm == "flag_running_time_signature":
            extra[nm] = True
    si = StringInterp(p, fi, flags, fd, out_lists=output_lists(fi.node), extra=extra)
    si.run_function(fi.node, {})
    return si.emitted, doms


# ------------------------------------------------------------------------------------------------ dispatch chains
def _plain_member_test(t):
    return enum_member_in_test(t)


def dispatch_chain(fn: ast.FunctionDef):
    """The if/elif chain testing the token's main prefix: [(member or None for the final else, test, body)]."""
    best = None
    # a local that holds "the token's part with prefix M, or None": `x = next((p for p in parts if p[0] == M.value), None)`; then
    # `x is not None` asks what `M.value in <prefixes of the parts>` asks
    present = {}
    for a in ast.walk(fn):
        if isinstance(a, ast.Assign) and len(a.targets) == 1 and isinstance(a.targets[0], ast.Name) and isinstance(a.value, ast.Call) and isinstance(a.value.func, ast.Name) \
                and a.value.func.id == "next" and len(a.value.args) == 2 and isinstance(a.value.args[1], ast.Constant) and a.value.args[1].value is None \
                and isinstance(a.value.args[0], ast.GeneratorExp) and len(a.value.args[0].generators) == 1 and len(a.value.args[0].generators[0].ifs) == 1:
            g = a.value.args[0].generators[0]
            m = _plain_member_test(g.ifs[0])
            if m is not None and isinstance(g.target, ast.Name) and src(a.value.args[0].elt) == g.target.id \
                    and sum(1 for x in ast.walk(fn) if isinstance(x, ast.Name) and x.id == a.targets[0].id and isinstance(x.ctx, ast.Store)) == 1:
                present[a.targets[0].id] = m

    def enum_member_in_test(t):
        r = _plain_member_test(t)
        if r is None and isinstance(t, ast.Compare) and len(t.ops) == 1 and isinstance(t.ops[0], (ast.IsNot, ast.NotEq)) and isinstance(t.left, ast.Name) \
                and t.left.id in present and isinstance(t.comparators[0], ast.Constant) and t.comparators[0].value is None:
            return present[t.left.id]
        return r
    for n in ast.walk(fn):
        if isinstance(n, ast.If) and enum_member_in_test(n.test) is not None and not _is_elif(n):
            chain = []
            node = n
            while True:
                chain.append((enum_member_in_test(node.test), node.test, node.body))
                if len(node.orelse) == 1 and isinstance(node.orelse[0], ast.If) and enum_member_in_test(node.orelse[0].test) is not None:
                    node = node.orelse[0]
                else:
                    if node.orelse:
                        chain.append((None, None, node.orelse))
                    break
            if best is None or len(chain) > len(best):
                best = chain
    if best is None:
        raise AnalysisError(f"{fn.name}: prefix dispatch chain not found")
    # one branch for several prefixes (`prefix in (PAD, START, STOP)`): an entry per prefix, same test and body
    out = []
    for m, t, b in best:
        if isinstance(m, str) and m.startswith("in:"):
            out += [(x, t, b) for x in m[3:].split("|")]
        else:
            out.append((m, t, b))
    return out


def _is_elif(n: ast.If) -> bool:
    par = getattr(n, "_parent", None)
    return isinstance(par, ast.If) and len(par.orelse) == 1 and par.orelse[0] is n


def enum_member_in_test(t: ast.AST):
    if isinstance(t, ast.Compare) and len(t.ops) == 1:
        if isinstance(t.ops[0], (ast.Eq, ast.Is)):
            m = enum_member(t.comparators[0], "TokenisationPrefixes") or enum_member(t.left, "TokenisationPrefixes")
            return m
        if isinstance(t.ops[0], ast.In):
            m = enum_member(t.left, "TokenisationPrefixes")
            if m is None and isinstance(t.comparators[0], (ast.Tuple, ast.List, ast.Set)) and t.comparators[0].elts:
                ms = [enum_member(e, "TokenisationPrefixes") for e in t.comparators[0].elts]
                if all(x is not None for x in ms):
                    return "in:" + "|".join(ms)             # one branch for several prefixes (the ignored ones)
            return m
        if isinstance(t.ops[0], (ast.NotEq, ast.IsNot)):
            # a branch selected by "is not this prefix": part of the chain, but not the branch *of* that prefix
            m = enum_member(t.comparators[0], "TokenisationPrefixes") or enum_member(t.left, "TokenisationPrefixes")
            return f"not:{m}" if m is not None else None
    return None


# ------------------------------------------------------------------------------------------------ CLK summaries
def field_hook(settings: dict):
    """Normaliser hook: int(token_parts[..][k]) / int(x_part[k]) -> FIELD(k); int(x)/round(x) transparent; settings -> numbers."""
    def hook(e, nz):
        if isinstance(e, ast.Call) and isinstance(e.func, ast.Name) and e.func.id in ("int", "round") and len(e.args) == 1:
            a = e.args[0]
            if isinstance(a, ast.Subscript) and isinstance(a.slice, ast.Constant) and isinstance(a.slice.value, int) and \
                    ("part" in src(a.value)):
                return Sym.atom(f"FIELD({a.slice.value})")
            return nz.norm(a)
        if isinstance(e, ast.Name) and e.id not in nz.env and e.id in settings and isinstance(settings[e.id], int) and e.id.startswith("DEFAULT_"):
            return Sym.const(settings[e.id])
        return None
    return hook


def branch_effect(body: list[ast.stmt], settings: dict, pre: dict[str, Sym] | None = None) -> dict[str, Sym]:
    nz = Normaliser(env=pre, atom_hook=field_hook(settings))
    nz.run_block(body)
    return nz.env


def core_effect(env: dict[str, Sym], roles: dict[str, str] | None = None) -> dict[str, str]:
    """Effect on the timing core, with the function's own variable names replaced by role names (time, bar_time,
    remaining, total) so that functions using different local names can be compared."""
    roles = roles or {v: v for v in CLOCK}
    sub = {actual: Sym.atom(role) for role, actual in roles.items()}
    out = {}
    for role, actual in roles.items():
        if actual in env:
            c = env[actual].subst(sub).canon()
            if c != role:
                out[role] = c
    return out


ROLE_NAMES = ("cur_time", "cur_time_bar", "cur_bar_capacity_remaining", "cur_bar_capacity_total")


def roles_from_effects(rest_env: dict[str, Sym], bar_env: dict[str, Sym], field: Sym) -> dict[str, str] | None:
    """Identify the four clock variables of a function from what its REST and BAR handling does to them:
    REST adds the field to two variables (time, bar time) and subtracts it from one (remaining capacity);
    BAR sets the bar time to 0 and refills the remaining capacity from the total capacity."""
    plus, minus = [], []
    for v, e in rest_env.items():
        d = e - Sym.atom(v)
        if d == field:
            plus.append(v)
        elif d == -field:
            minus.append(v)
    if len(minus) > 1:
        minus = [v for v in minus if v in bar_env]          # the emitter also counts a local rest buffer down
    if len(plus) != 2 or len(minus) != 1:
        return None
    remaining = minus[0]
    zero = [v for v in plus if v in bar_env and bar_env[v] == Sym.const(0)]
    if len(zero) != 1:
        return None
    bar_time = zero[0]
    time = next(v for v in plus if v != bar_time)
    tot = bar_env.get(remaining)
    if tot is None or not tot.is_monomial() or len(tot.atoms()) != 1:
        return None
    total = next(iter(tot.atoms()))
    return {"cur_time": time, "cur_time_bar": bar_time, "cur_bar_capacity_remaining": remaining, "cur_bar_capacity_total": total}


def ts_guard_split(body: list[ast.stmt], bar_time: str = "cur_time_bar"):
    """TIME_SIGNATURE branch: returns (guarded?, statements applied when the bar is at its start)."""
    for s in body:
        if isinstance(s, ast.If) and isinstance(s.test, ast.Compare) and isinstance(s.test.ops[0], ast.Gt) and src(s.test.left) == bar_time \
                and isinstance(s.test.comparators[0], ast.Constant) and s.test.comparators[0].value == 0:
            skip_is_noop = not any(isinstance(x, (ast.Assign, ast.AugAssign)) for y in s.body for x in ast.walk(y))
            rest = [x for x in body if x is not s and x.lineno > s.lineno]
            if s.orelse:
                return True, skip_is_noop, s.orelse + rest, s
            # `if cur_time_bar > 0: ...; continue` followed by the update
            if any(isinstance(x, ast.Continue) for x in s.body):
                return True, skip_is_noop, rest, s
    return False, True, body, None


def rename_sig(canon: str) -> str:
    """Side-neutral capacity formula: any numerator-like atom -> N, denominator-like -> D."""
    # (also the field read in place: `pairing[0].numerator`)
    c = re.sub(r"(?:\b\w+(?:\[\d+\])*\.)?\b\w*numerator\w*\b", "N", canon, flags=re.I)
    c = re.sub(r"(?:\b\w+(?:\[\d+\])*\.)?\b\w*denominator\w*\b", "D", c, flags=re.I)
    c = c.replace("FIELD(1)", "N").replace("FIELD(2)", "D")
    if " + " not in c and "(" not in c:
        c = "*".join(sorted(c.split("*")))          # one product: the order of the factors after renaming says nothing
    return c


def _sig_role(name: str, fn: ast.FunctionDef, depth: int = 0, seen=()) -> str | None:
    """"N" / "D" for a local that is not named after its role but only ever holds a numerator (denominator): every assignment
    to it, normalised and renamed, mentions N (D) and nothing else signature-like.  (`sig__0` of a split tuple, `n` of `n, d = ...`)"""
    if depth > 4 or name in seen:
        return None
    roles = set()
    for a in ast.walk(fn):
        if isinstance(a, ast.Assign) and len(a.targets) == 1 and isinstance(a.targets[0], ast.Name) and a.targets[0].id == name:
            try:
                c = Normaliser(atom_hook=field_hook({})).norm(a.value)
            except Exception:
                return None
            atoms = set(c.atoms())
            got = set()
            for at in atoms:
                r = rename_sig(at)
                if r in ("N", "D"):
                    got.add(r)
                elif re.fullmatch(r"\w+", at) and not at.isdigit():
                    sub = _sig_role(at, fn, depth + 1, seen + (name,))
                    if sub is None:
                        return None
                    got.add(sub)
                else:
                    return None
            if len(got) != 1:
                return None
            roles |= got
    return next(iter(roles)) if len(roles) == 1 else None


def capacity_sites(p: Program):
    """All assignments to a `*capacity_total*` variable in the tokeniser class: [(func qualname, node, neutral canon)]."""
    out = []
    for q in (f"{TOK}.tokenise", f"{TOK}.detokenise", f"{TOK}.get_info"):
        fi = p.func(q)
        for n in ast.walk(fi.node):
            if isinstance(n, ast.Assign) and isinstance(n.targets[0], ast.Name) and "capacity_total" in n.targets[0].id:
                wrapped = isinstance(n.value, ast.Call) and isinstance(n.value.func, ast.Name) and n.value.func.id == "int"
                out.append((q, n, neutral_capacity(n.value, fi.node), wrapped))
    return out


def neutral_capacity(e: ast.expr, fn: ast.FunctionDef, nz: Normaliser | None = None) -> str:
    """Side-neutral normal form of a capacity expression: atoms not named after their role are classified by what they are assigned."""
    c = (nz or Normaliser(atom_hook=field_hook({}))).norm(e)
    sub = {}
    for at in c.atoms():
        if re.fullmatch(r"\w+", at) and rename_sig(at) == at and not at.startswith("self"):
            r = _sig_role(at, fn)
            if r is not None:
                sub[at] = Sym.atom({"N": "role_numerator", "D": "role_denominator"}[r])
    if sub:
        c = c.subst(sub)
    return rename_sig(c.canon())
