"""VELBIN -- the velocity bins behind the VELOCITY field of a note token.

The tokeniser keeps a list of bin values (`self.velocity_bins`); a note's velocity token carries
`velocity_bins[bin_velocity(velocity, velocity_bins)]`, and the vocabulary iterates the same list.  Three facts about
that list and the index carry clauses of C01 and C02 for *every* number of bins:

  TOPBIN    the producer (`get_velocity_bins`) guarantees that the largest bin value is the maximum velocity, so a note at
            full velocity has a bin (with `np.digitize(..., right=True)` the index of the first bin >= velocity is then
            inside the list): every element is clamped to the maximum and the top element is set to it -- or the bin size
            is a ceiling division, which makes the last unclamped value reach the maximum by arithmetic;
  DIGITIZE  `bin_velocity` digitises *its* velocity argument against *its* bins argument (replaced only when None) with
            `right=True` (velocity == bin value belongs to that bin; with right=False the top velocity falls off the list);
  DISTINCT  the list the vocabulary is built from holds no value twice: it is made by a set-based de-duplication
            (`sorted(set(...))`, `sorted({...})`, `list(dict.fromkeys(...))`); a clamped comprehension without one repeats the
            clamp value as soon as two bins exceed it (ids are then skipped and two ids decode to one token).

The rules decide the structure; which bin a velocity falls into is arithmetic and not decided.
"""
from __future__ import annotations

import ast

from ..astutil import attr_chain, call_method, short, src, ancestors, path_conditions
from ..model import walk_local
from ..report import Ctx
from .templates import TOK

PRODUCER = "get_velocity_bins"
BINNER = "bin_velocity"


def _is_dedup(e: ast.AST) -> bool:
    """`sorted(set(..))`, `sorted({..})`, `sorted({.. for ..})`, `list(dict.fromkeys(..))`, `list(set(..))` ..."""
    if isinstance(e, ast.Call) and isinstance(e.func, ast.Name) and e.func.id in ("sorted", "list") and e.args:
        a = e.args[0]
        if isinstance(a, (ast.Set, ast.SetComp)):
            return True
        if isinstance(a, ast.Call) and isinstance(a.func, ast.Name) and a.func.id in ("set", "frozenset"):
            return True
        if isinstance(a, ast.Call) and src(a.func) == "dict.fromkeys":
            return True
    return False


def _returned_list(fn: ast.FunctionDef):
    rets = [r for r in walk_local(fn) if isinstance(r, ast.Return) and r.value is not None]
    if len(rets) != 1:
        return None, None
    return rets[0], rets[0].value


def _max_param(fi) -> str | None:
    return next((a for a in fi.params if "max" in a.lower()), None)


def _clamped(elt: ast.AST, mx: str) -> bool:
    """elt == min(mx, ...) possibly under int()/round()."""
    while isinstance(elt, ast.Call) and isinstance(elt.func, ast.Name) and elt.func.id in ("int", "round", "float") and elt.args:
        elt = elt.args[0]
    return isinstance(elt, ast.Call) and isinstance(elt.func, ast.Name) and elt.func.id == "min" and any(isinstance(a, ast.Name) and a.id == mx for a in elt.args)


def producer_facts(ctx: Ctx):
    """-> dict(clamped, top_store, ceil_size, dedup, comp, fi) about get_velocity_bins, or None when its shape is not recognised."""
    p = ctx.p
    fi = p.functions.get(PRODUCER)
    if fi is None:
        return None
    ctx.analysed(fi)
    mx = _max_param(fi)
    ret, rv = _returned_list(fi.node)
    if mx is None or ret is None:
        return None
    dedup = _is_dedup(rv)
    inner = rv
    if dedup:
        inner = rv.args[0]
        if isinstance(inner, ast.Call) and inner.args:
            inner = inner.args[0]
    name = inner.id if isinstance(inner, ast.Name) else None
    comp = None
    if name:
        defs = [a for a in walk_local(fi.node) if isinstance(a, ast.Assign) and any(isinstance(t, ast.Name) and t.id == name for t in a.targets)]
        if len(defs) == 1 and isinstance(defs[0].value, (ast.ListComp, ast.SetComp)):
            comp = defs[0].value
            dedup = dedup or isinstance(defs[0].value, ast.SetComp)
        elif len(defs) >= 1 and _is_dedup(defs[-1].value):
            dedup = True
            first = defs[0].value
            comp = first if isinstance(first, (ast.ListComp, ast.SetComp)) else None
    elif isinstance(inner, (ast.ListComp, ast.SetComp)):
        comp = inner
    if comp is None:
        return None
    clamped = _clamped(comp.elt, mx)
    # explicit top element: `<name>[-1] = mx` (or append(mx)) after the construction, unconditionally
    top = False
    if name:
        for s in walk_local(fi.node):
            if isinstance(s, ast.Assign) and len(s.targets) == 1 and isinstance(s.targets[0], ast.Subscript) and src(s.targets[0].value) == name \
                    and src(s.targets[0].slice) == "-1" and isinstance(s.value, ast.Name) and s.value.id == mx and not path_conditions(s):
                top = True
            if isinstance(s, ast.Expr) and isinstance(s.value, ast.Call) and call_method(s.value)[1] == "append" and src(call_method(s.value)[0]) == name \
                    and s.value.args and isinstance(s.value.args[0], ast.Name) and s.value.args[0].id == mx and not path_conditions(s):
                top = True
    # bin size by ceiling division: math.ceil(mx / n) or -(-mx // n)
    ceil_size = False
    for a in walk_local(fi.node):
        if isinstance(a, ast.Assign) and isinstance(a.targets[0], ast.Name) and "size" in a.targets[0].id.lower():
            t = src(a.value).replace(" ", "")
            if t.startswith("math.ceil(") or t.startswith("ceil(") or t.startswith("-(-"):
                ceil_size = True
    return {"fi": fi, "mx": mx, "comp": comp, "clamped": clamped, "top_store": top, "ceil_size": ceil_size, "dedup": dedup, "ret": ret}


def topbin_rules(ctx: Ctx) -> None:
    """TOPBIN + DIGITIZE (a clause of C01: tokenisation of a valid piece succeeds for every number of bins)."""
    p = ctx.p
    f = producer_facts(ctx)
    if f is None:
        ctx.undetermined("TOPBIN", f"{PRODUCER}: the largest bin", "producer shape not recognised (no single returned comprehension): not judged")
    else:
        fi = f["fi"]
        ok = f["clamped"] and (f["top_store"] or f["ceil_size"])
        why = (f"elements clamped to `{f['mx']}`: {f['clamped']}; top element set to it: {f['top_store']}; bin size by ceiling division: {f['ceil_size']}")
        ctx.check(ok, "TOPBIN", f"{PRODUCER}: the largest bin value is the maximum velocity for every number of bins", function=fi.qualname,
                  construct="the largest velocity bin is not guaranteed to reach the maximum velocity",
                  message=why + ": with a rounded bin size the last value `(n + 1/2) * size` can stay below the maximum (e.g. 20 bins: 123 < 127); a note at full "
                                "velocity then indexes past the end of the bin list (IndexError in tokenise)", file=fi.file, node=f["comp"])
    fb = p.functions.get(BINNER)
    if fb is None:
        ctx.undetermined("DIGITIZE", f"{BINNER}", "routine not found: not judged")
        return
    ctx.analysed(fb)
    vel_p, bins_p = fb.params[0], fb.params[1] if len(fb.params) > 1 else None
    calls = [c for c in walk_local(fb.node) if isinstance(c, ast.Call) and isinstance(c.func, ast.Attribute) and c.func.attr == "digitize"]
    if len(calls) != 1 or bins_p is None:
        ctx.undetermined("DIGITIZE", f"{BINNER}: index computation", "no single digitize call: not judged")
        return
    c = calls[0]
    kw = {k.arg: k.value for k in c.keywords}
    a0 = c.args[0] if c.args else kw.get("x")
    a1 = c.args[1] if len(c.args) > 1 else kw.get("bins")
    right = c.args[2] if len(c.args) > 2 else kw.get("right")
    ctx.check(isinstance(a0, ast.Name) and a0.id == vel_p and isinstance(a1, ast.Name) and a1.id == bins_p, "DIGITIZE",
              f"{BINNER}: digitises its velocity argument against its bins argument", function=fb.qualname,
              construct="bin_velocity does not digitise its own velocity against its own bins argument",
              message=f"`{short(c, 80)}`: the index is used on the caller's list; computed against another list it can point to another bin or past the end",
              file=fb.file, node=c)
    ctx.check(isinstance(right, ast.Constant) and right.value is True, "DIGITIZE", f"{BINNER}: a velocity equal to a bin value belongs to that bin (right=True)",
              function=fb.qualname, construct="bin_velocity digitises with right=False",
              message="with right=False the maximum velocity (equal to the top bin value) gets the index one past the end of the list", file=fb.file, node=c)
    # the bins argument is replaced only when it is None
    stores = [s for s in walk_local(fb.node) if isinstance(s, ast.Assign) and any(isinstance(t, ast.Name) and t.id == bins_p for t in s.targets)]
    okb = True
    for s in stores:
        pcs = path_conditions(s)
        okb = okb and len(pcs) == 1 and pcs[0][1] and isinstance(pcs[0][0], ast.Compare) and src(pcs[0][0].left) == bins_p \
            and isinstance(pcs[0][0].ops[0], (ast.Is, ast.Eq)) and isinstance(pcs[0][0].comparators[0], ast.Constant) and pcs[0][0].comparators[0].value is None
    ctx.check(okb, "DIGITIZE", f"{BINNER}: the caller's bin list is replaced only when none was given", function=fb.qualname,
              construct="bin_velocity replaces a bin list that was given", message=f"{[short(s) for s in stores]}", file=fb.file, node=stores[0] if stores else fb.node)


def distinct_rule(ctx: Ctx) -> None:
    """DISTINCT (a clause of C02: ids one-to-one and consecutive, size = number of entries, for every number of bins)."""
    p = ctx.p
    init = p.functions.get(f"{TOK}.__init__")
    if init is None:
        ctx.undetermined("DISTINCT", "tokeniser bin list", "constructor not found: not judged")
        return
    ctx.analysed(init)
    defs = [a for a in walk_local(init.node) if isinstance(a, ast.Assign) and any(attr_chain(t) == ["self", "velocity_bins"] for t in a.targets)]
    if len(defs) != 1:
        ctx.undetermined("DISTINCT", "tokeniser bin list", f"{len(defs)} definitions of self.velocity_bins: not judged")
        return
    v = defs[0].value
    if _is_dedup(v):
        ctx.ok("DISTINCT", f"{TOK}.__init__: the velocity values of the vocabulary are de-duplicated (`{short(v, 70)}`)")
        return
    f = producer_facts(ctx)
    from_producer = any(isinstance(c, ast.Call) and isinstance(c.func, ast.Name) and c.func.id == PRODUCER for c in ast.walk(v))
    if f is None or not from_producer:
        ctx.undetermined("DISTINCT", "tokeniser bin list", f"`{short(v, 60)}` is neither de-duplicated nor a recognised product of {PRODUCER}: not judged")
        return
    if f["dedup"] and not any(isinstance(c, ast.Call) and isinstance(c.func, ast.Name) and c.func.id in ("int", "round") for c in ast.walk(v)):
        ctx.ok("DISTINCT", f"{PRODUCER} returns a de-duplicated list and the tokeniser uses it as it is")
        return
    if f["clamped"]:
        ctx.violation("DISTINCT", f"{TOK}.__init__: the velocity values the vocabulary iterates are pairwise different", function=f"{TOK}.__init__",
                      construct="the velocity bin list of the vocabulary can hold a value twice",
                      message=f"`{short(v, 70)}` takes every element of {PRODUCER}, whose elements are clamped with min(): as soon as two bins exceed the maximum the "
                              f"clamp value occurs twice (19 bins: ..., 127, 127), the same token string is inserted twice, ids are skipped and size != number of entries",
                      file=init.file, node=defs[0])
    else:
        ctx.undetermined("DISTINCT", "tokeniser bin list", "no clamp and no de-duplication: distinctness is arithmetic, not judged")
