"""Small must-analyses on the structured program (AbsInt clients).

MustFollow: after every statement matching `trigger`, a statement matching `discharge` is executed on every path
before the function exits normally (return / fall-through).  State: pending in {False, True}; join = or.
"""
from __future__ import annotations

import ast

from ..absint import AbsInt


class MustFollow(AbsInt):
    def __init__(self, trigger, discharge):
        super().__init__()
        self.trigger = trigger
        self.discharge = discharge
        self.pending_nodes: list[ast.AST] = []

    def join(self, a, b):
        return (a[0] or b[0], a[1] if a[0] else b[1])

    def copy(self, s):
        return s

    def _scan(self, node: ast.AST, st):
        # triggers and discharges inside one simple statement are applied in source order
        for n in ast.walk(node):
            if self.discharge(n):
                st = (False, None)
        if self.trigger(node):
            st = (True, node)
        return st

    def stmt(self, s, st):
        return self._scan(s, st)

    def cond(self, test, st):
        st = self._scan(test, st) if not self.trigger(test) else st
        return st, st

    def for_iter(self, node, st):
        return self._scan(node.iter, st)

    def run(self, fn: ast.FunctionDef) -> list[tuple[ast.AST | None, ast.AST]]:
        """Returns the list of (exit node or None for fall-through, pending trigger node)."""
        end, rets, raises = self.run_function(fn, (False, None))
        bad = []
        if end is not None and end[0]:
            bad.append((None, end[1]))
        for node, st in rets:
            st = self._scan(node.value, st) if node.value is not None else st
            if st[0]:
                bad.append((node, st[1]))
        return bad


def check_sorted_invariant(ctx, rule: str, cls: str = "AbsoluteSequence", methods=None) -> int:
    """Class invariant of the absolute representation: the event list is sorted by time whenever a method returns.
    Every statement that may disturb the order (a store to `.time` of a message that is not a fresh local, a rebind of
    `self._messages`, an unsorted append) must be followed, on every normal exit, by a call that re-sorts the list."""
    import ast as _ast
    from ..astutil import attr_chain, call_method, short
    from .effects import Effects, fresh_locals
    p = ctx.p
    eff = Effects(p)
    ci = p.cls(cls)
    n = 0
    for name, fi in sorted(ci.methods.items()):
        if methods is not None and name not in methods:
            continue
        if name in ("__init__", "sort", "_add_message_unsorted", "normalise_absolute"):
            continue
        fresh = fresh_locals(fi.node, p)

        def trigger(s, fresh=fresh):
            if isinstance(s, (_ast.Assign, _ast.AugAssign)):
                tg = s.targets if isinstance(s, _ast.Assign) else [s.target]
                for t in tg:
                    if attr_chain(t) == ["self", "_messages"]:
                        return True
                    if isinstance(t, _ast.Attribute) and t.attr == "time" and not (isinstance(t.value, _ast.Name) and (t.value.id in fresh or t.value.id == "self")):
                        return True
            if isinstance(s, _ast.Expr) and isinstance(s.value, _ast.Call):
                recv, m = call_method(s.value)
                if attr_chain(recv) == ["self"] and m == "_add_message_unsorted":
                    return True
                if attr_chain(recv) == ["self", "_messages"] and m in ("append", "extend", "insert"):
                    return True
            return False

        def discharge(x):
            if isinstance(x, _ast.Call):
                recv, m = call_method(x)
                if isinstance(recv, _ast.Name) and recv.id == "self" and m and p.lookup_method(cls, m):
                    return any(w.kind == "sort" for w in eff.writes(cls, m))
                if attr_chain(recv) == ["self", "_messages"] and m == "sort":
                    return True
            return False
        has_trigger = any(trigger(s) for s in _ast.walk(fi.node) if isinstance(s, _ast.stmt))
        if not has_trigger:
            continue
        n += 1
        ctx.analysed(fi)
        bad = MustFollow(trigger, discharge).run(fi.node)
        ctx.check(not bad, rule, f"{fi.qualname}: event list re-sorted after every change of times/order, on every exit", function=fi.qualname,
                  construct="event times or list order changed without a following canonical sort",
                  message=f"`{short(bad[0][1], 70) if bad else ''}` can reach an exit without re-sorting: the absolute list is no longer ordered by "
                          f"time, and the conversion to the relative view (which walks the list in order) yields wrong waits",
                  file=fi.file, node=bad[0][1] if bad else fi.node)
    return n
