"""Small must-analyses on the structured program (AbsInt clients).

MustFollow: after every statement matching `trigger`, a statement matching `discharge` is executed on every path
before the function exits normally (return / fall-through).  State: pending in {False, True}; join = or.
"""
from __future__ import annotations

import ast

from ..absint import AbsInt


class MustFollow(AbsInt):
    def __init__(self, trigger, discharge):
        super().__init__()
        self.trigger = trigger
        self.discharge = discharge
        self.pending_nodes: list[ast.AST] = []

    def join(self, a, b):
        return (a[0] or b[0], a[1] if a[0] else b[1])

    def copy(self, s):
        return s

    def _scan(self, node: ast.AST, st):
        # triggers and discharges inside one simple statement are applied in source order
        for n in ast.walk(node):
            if self.discharge(n):
                st = (False, None)
        if self.trigger(node):
            st = (True, node)
        return st

    def stmt(self, s, st):
        return self._scan(s, st)

    def cond(self, test, st):
        st = self._scan(test, st) if not self.trigger(test) else st
        return st, st

    def for_iter(self, node, st):
        return self._scan(node.iter, st)

    def run(self, fn: ast.FunctionDef) -> list[tuple[ast.AST | None, ast.AST]]:
        """Returns the list of (exit node or None for fall-through, pending trigger node)."""
        end, rets, raises = self.run_function(fn, (False, None))
        bad = []
        if end is not None and end[0]:
            bad.append((None, end[1]))
        for node, st in rets:
            st = self._scan(node.value, st) if node.value is not None else st
            if st[0]:
                bad.append((node, st[1]))
        return bad
