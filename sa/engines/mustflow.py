"""Small must-analyses on the structured program (AbsInt clients).

MustFollow: after every statement matching `trigger`, a statement matching `discharge` is executed on every path
before the function exits normally (return / fall-through).  State: pending in {False, True}; join = or.
"""
from __future__ import annotations

import ast

from ..absint import AbsInt


class MustFollow(AbsInt):
    def __init__(self, trigger, discharge):
        super().__init__()
        self.trigger = trigger
        self.discharge = discharge
        self.pending_nodes: list[ast.AST] = []

    def join(self, a, b):
        return (a[0] or b[0], a[1] if a[0] else b[1])

    def copy(self, s):
        return s

    def _scan(self, node: ast.AST, st):
        # triggers and discharges inside one simple statement are applied in source order
        for n in ast.walk(node):
            if self.discharge(n):
                st = (False, None)
        if self.trigger(node):
            st = (True, node)
        return st

    def stmt(self, s, st):
        return self._scan(s, st)

    def cond(self, test, st):
        st = self._scan(test, st) if not self.trigger(test) else st
        return st, st

    def for_iter(self, node, st):
        return self._scan(node.iter, st)

    def run(self, fn: ast.FunctionDef) -> list[tuple[ast.AST | None, ast.AST]]:
        """Returns the list of (exit node or None for fall-through, pending trigger node)."""
        end, rets, raises = self.run_function(fn, (False, None))
        bad = []
        if end is not None and end[0]:
            bad.append((None, end[1]))
        for node, st in rets:
            st = self._scan(node.value, st) if node.value is not None else st
            if st[0]:
                bad.append((node, st[1]))
        return bad


def check_sorted_invariant(ctx, rule: str, cls: str = "AbsoluteSequence", methods=None) -> int:
    """Class invariant of the absolute representation: the event list is sorted by time whenever a method returns.
    Every statement that may disturb the order (a store to `.time` of a message that is not a fresh local, a rebind of
    `self._messages`, an unsorted append) must be followed, on every normal exit, by a call that re-sorts the list."""
    import ast as _ast
    from ..astutil import attr_chain, call_method, short
    from .effects import Effects, fresh_locals
    p = ctx.p
    eff = Effects(p)
    ci = p.cls(cls)
    n = 0
    for name, fi in sorted(ci.methods.items()):
        if methods is not None and name not in methods:
            continue
        if name in ("__init__", "sort", "_add_message_unsorted", "normalise_absolute"):
            continue
        fresh = fresh_locals(fi.node, p)

        def trigger(s, fresh=fresh):
            if isinstance(s, (_ast.Assign, _ast.AugAssign)):
                tg = s.targets if isinstance(s, _ast.Assign) else [s.target]
                for t in tg:
                    if attr_chain(t) == ["self", "_messages"]:
                        return True
                    if isinstance(t, _ast.Attribute) and t.attr == "time" and not (isinstance(t.value, _ast.Name) and (t.value.id in fresh or t.value.id == "self")):
                        return True
            if isinstance(s, _ast.Expr) and isinstance(s.value, _ast.Call):
                recv, m = call_method(s.value)
                if attr_chain(recv) == ["self"] and m == "_add_message_unsorted":
                    return True
                if attr_chain(recv) == ["self", "_messages"] and m in ("append", "extend", "insert"):
                    return True
            return False

        def discharge(x):
            if isinstance(x, _ast.Call):
                recv, m = call_method(x)
                if isinstance(recv, _ast.Name) and recv.id == "self" and m and p.lookup_method(cls, m):
                    return any(w.kind == "sort" for w in eff.writes(cls, m))
                if attr_chain(recv) == ["self", "_messages"] and m == "sort":
                    return True
            return False
        has_trigger = any(trigger(s) for s in _ast.walk(fi.node) if isinstance(s, _ast.stmt))
        if not has_trigger:
            continue
        n += 1
        ctx.analysed(fi)
        bad = MustFollow(trigger, discharge).run(fi.node)
        ctx.check(not bad, rule, f"{fi.qualname}: event list re-sorted after every change of times/order, on every exit", function=fi.qualname,
                  construct="event times or list order changed without a following canonical sort",
                  message=f"`{short(bad[0][1], 70) if bad else ''}` can reach an exit without re-sorting: the absolute list is no longer ordered by "
                          f"time, and the conversion to the relative view (which walks the list in order) yields wrong waits",
                  file=fi.file, node=bad[0][1] if bad else fi.node)
    # the routines the obligations above are discharged by really sort, on every call: no early return, no condition (a cached
    # "already sorted" flag cannot see in-place edits of message times)
    from ..astutil import path_conditions, early_exits_before
    for name in ("sort", "normalise_absolute"):
        fi = ci.methods.get(name)
        if fi is None:
            continue
        ctx.analysed(fi)
        sorts = []
        for x in _ast.walk(fi.node):
            if isinstance(x, _ast.Call):
                recv, m = call_method(x)
                if attr_chain(recv) == ["self", "_messages"] and m == "sort":
                    sorts.append(x)
                elif isinstance(recv, _ast.Name) and recv.id == "self" and m in ("sort", "normalise_absolute") and m != name:
                    sorts.append(x)
            elif isinstance(x, _ast.Assign) and any(attr_chain(t) == ["self", "_messages"] for t in x.targets) and isinstance(x.value, _ast.Call) \
                    and isinstance(x.value.func, _ast.Name) and x.value.func.id == "sorted":
                sorts.append(x)
        ok = bool(sorts) and any(not path_conditions(x) and not early_exits_before(fi.node, x) for x in sorts)
        ctx.check(ok, rule, f"{fi.qualname}: sorts the event list on every call", function=fi.qualname,
                  construct=f"{fi.qualname} can return without sorting the event list",
                  message=f"sort sites {[short(x, 50) for x in sorts]}: skipped under a condition or after an early return -- times edited in place "
                          f"(cutoff, quantise_note_lengths, an iteration over messages_abs) leave the list out of order", file=fi.file,
                  node=sorts[0] if sorts else fi.node)
        n += 1
    return n


def check_sorted_construction(ctx, rule: str, cls: str = "AbsoluteSequence") -> int:
    """Every `AbsoluteSequence(messages=...)` constructed inside the library must hold a time-sorted list: the argument is
    either derived in order from another absolute sequence's own list (a comprehension / list() / copy over `X._messages`,
    which is sorted by the class invariant), or the new object is sorted before the function's normal exits."""
    import ast as _ast
    from ..astutil import attr_chain, call_method, short, ancestors, enclosing_function
    p = ctx.p
    n = 0
    for fi in p.all_functions():
        for c in _ast.walk(fi.node):
            if not isinstance(c, _ast.Call):
                continue
            is_ctor = (isinstance(c.func, _ast.Name) and c.func.id == cls) or \
                      (attr_chain(c.func) == ["self", "__class__"] and fi.cls in ("AbstractSequence", cls))
            if not is_ctor:
                continue
            arg = c.args[0] if c.args else next((k.value for k in c.keywords if k.arg == "messages"), None)
            if arg is None or (isinstance(arg, _ast.Constant) and arg.value is None):
                continue
            n += 1
            inst = f"{fi.qualname}: `{short(c, 70)}`"
            ctx.analysed(fi)

            def ordered_source(e) -> bool:
                if isinstance(e, _ast.ListComp) and len(e.generators) == 1:
                    it = e.generators[0].iter
                    return isinstance(it, _ast.Attribute) and it.attr == "_messages"
                if isinstance(e, _ast.Call) and isinstance(e.func, _ast.Name) and e.func.id in ("list", "tuple") and e.args:
                    return isinstance(e.args[0], _ast.Attribute) and e.args[0].attr == "_messages"
                if isinstance(e, _ast.Attribute) and e.attr == "_messages":
                    return True
                return False
            if ordered_source(arg):
                ctx.ok(rule, inst, "argument derived in order from a sequence's own list")
                continue
            # otherwise: the created object must be sorted before the function exits
            st = c
            while not isinstance(st, _ast.stmt):
                st = st._parent
            target = None
            if isinstance(st, _ast.Assign) and len(st.targets) == 1:
                target = st.targets[0]
            tsrc = _ast.unparse(target) if target is not None else None

            def trigger(s, st=st):
                return s is st

            def discharge(x, tsrc=tsrc):
                if isinstance(x, _ast.Call) and isinstance(x.func, _ast.Attribute) and x.func.attr in ("sort", "normalise_absolute"):
                    return tsrc is not None and _ast.unparse(x.func.value) == tsrc
                return False
            bad = MustFollow(trigger, discharge).run(fi.node)
            ctx.check(not bad and tsrc is not None, rule, inst + " is sorted before use", function=fi.qualname,
                      construct=f"{cls} built from an arbitrary message list without sorting it",
                      message=f"`{short(c, 70)}` stores the caller's order: the absolute view must be ordered by time (the conversion to the relative view "
                              f"and get_sequence_duration rely on it)", file=fi.file, node=c)
    # raw writes to the list of a locally built absolute sequence, outside the class that owns the ordering
    for fi in p.all_functions():
        if fi.cls in ("AbstractSequence", cls):
            continue
        locals_ = {}
        for a in _ast.walk(fi.node):
            if isinstance(a, _ast.Assign) and len(a.targets) == 1 and isinstance(a.targets[0], _ast.Name) and isinstance(a.value, _ast.Call) \
                    and isinstance(a.value.func, _ast.Name) and a.value.func.id == cls:
                locals_[a.targets[0].id] = a
        if not locals_:
            continue
        for st in _ast.walk(fi.node):
            if not isinstance(st, _ast.stmt):
                continue
            who = None
            if isinstance(st, (_ast.Assign, _ast.AugAssign)):
                for t in (st.targets if isinstance(st, _ast.Assign) else [st.target]):
                    b = t.value if isinstance(t, _ast.Subscript) else t
                    if isinstance(b, _ast.Attribute) and b.attr == "_messages" and isinstance(b.value, _ast.Name) and b.value.id in locals_:
                        who = b.value.id
            elif isinstance(st, _ast.Expr) and isinstance(st.value, _ast.Call) and isinstance(st.value.func, _ast.Attribute) \
                    and st.value.func.attr in ("append", "extend", "insert", "reverse", "__setitem__"):
                b = st.value.func.value
                if isinstance(b, _ast.Attribute) and b.attr == "_messages" and isinstance(b.value, _ast.Name) and b.value.id in locals_:
                    who = b.value.id
            if who is None:
                continue
            n += 1

            def trigger(s, st=st):
                return s is st

            def discharge(x, who=who):
                return isinstance(x, _ast.Call) and isinstance(x.func, _ast.Attribute) and x.func.attr in ("sort", "normalise_absolute") \
                    and isinstance(x.func.value, _ast.Name) and x.func.value.id == who
            bad = MustFollow(trigger, discharge).run(fi.node)
            ctx.check(not bad, rule, f"{fi.qualname}: raw write `{short(st, 60)}` is followed by a sort", function=fi.qualname,
                      construct=f"raw write to the message list of a locally built {cls} without sorting it",
                      message=f"`{short(st, 60)}` bypasses add_message's ordered insertion", file=fi.file, node=st)
    return n



def check_overwrite_complete(ctx, rule: str = "OVERWRITE") -> int:
    """Sequence.overwrite_*_messages: the new view holds every given message -- each element of the parameter is added,
    unconditionally, to the object that becomes the view (or the list is handed to the constructor whole)."""
    import ast as _ast
    from ..astutil import call_method, short, src, path_conditions
    p = ctx.p
    n = 0
    for q, attr in (("Sequence.overwrite_absolute_messages", "_abs"), ("Sequence.overwrite_relative_messages", "_rel")):
        fi = p.functions.get(q)
        if fi is None:
            continue
        ctx.analysed(fi)
        prm = fi.params[1]
        stores = [s for s in _ast.walk(fi.node) if isinstance(s, _ast.Assign) and any(src(t) == f"self.{attr}" for t in s.targets)]
        ok = False
        why = "the view is never replaced"
        if len(stores) == 1:
            v = stores[0].value
            if isinstance(v, _ast.Call) and any(src(a) == prm for a in list(v.args) + [k.value for k in v.keywords]):
                ok, why = True, "list handed to the constructor whole"
            elif isinstance(v, _ast.Name):
                obj = v.id
                loops = [l for l in fi.node.body if isinstance(l, _ast.For) and src(l.iter) == prm and isinstance(l.target, _ast.Name) and l.lineno < stores[0].lineno]
                adds = [c for l in loops for c in _ast.walk(l) if isinstance(c, _ast.Call) and call_method(c)[1] in ("add_message", "_add_message_unsorted", "append")
                        and src(call_method(c)[0]).split(".")[0] == obj and c.args and src(c.args[0]) == l.target.id and not path_conditions(c, l)]
                clean = all(not any(isinstance(x, (_ast.Break, _ast.Continue, _ast.Return)) for x in _ast.walk(l)) for l in loops)
                ok = len(loops) == 1 and len(adds) == 1 and clean
                why = f"{len(loops)} loop(s) over `{prm}`, {len(adds)} unconditional add(s)"
        n += 1
        ctx.check(ok, rule, f"{q}: every given message goes into the new view ({why})", function=q,
                  construct="overwrite does not put every given message into the new view",
                  message=f"{why}: the sequence would silently lose the messages it was overwritten with", file=fi.file, node=stores[0] if stores else fi.node)
    return n
