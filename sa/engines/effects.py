"""EFF -- may-write summaries for methods of the sequence classes.

For a method of a class that stores its events in `self._messages`, compute the list of *write events* it may
perform on its own object: rebinding `self._messages`, structural list mutation, re-sorting, and attribute stores
on objects that are not provably fresh locals (hence possibly messages owned by `self`).  Calls on `self` are
followed through the class hierarchy; module functions that receive `self._messages` are followed through a
parameter-mutation summary.  This is a flow-insensitive may-analysis: it over-approximates writes.
"""
from __future__ import annotations

import ast
from dataclasses import dataclass

from ..model import Program, FuncInfo, walk_local
from ..astutil import attr_chain, call_method, src

LIST_MUTATORS = {"append", "insert", "extend", "pop", "remove", "clear", "reverse", "__setitem__", "__delitem__"}
PURE_BUILTINS = {"len", "enumerate", "list", "sorted", "zip", "reversed", "iter", "any", "all", "range", "min", "max",
                 "sum", "tuple", "set", "isinstance", "print", "str", "repr", "int", "float", "bool", "next", "abs",
                 "round", "dict", "hasattr", "getattr", "type", "id"}
PURE_MODULE_CALLS = {("copy", "copy"), ("copy", "deepcopy")}


@dataclass
class Write:
    kind: str            # rebind | listmut | sort | attr
    attr: str | None     # attribute name for kind == attr
    node: ast.AST
    func: str            # qualname where the write happens
    base: str = ""       # source text of the written object expression (attr stores)
    via: tuple = ()


def fresh_locals(fn: ast.FunctionDef, program: Program) -> set[str]:
    """Local names that, at every assignment, receive a brand-new object (constructor call, `.copy()`)."""
    cand: dict[str, bool] = {}
    params = {a.arg for a in fn.args.args + fn.args.kwonlyargs + fn.args.posonlyargs}

    def is_fresh_expr(e: ast.expr) -> bool:
        if isinstance(e, ast.Call):
            recv, name = call_method(e)
            if recv is None and name in program.classes:
                return True
            if recv is not None and name == "copy" and not (isinstance(recv, ast.Name) and recv.id == "copy"):
                return True
            ch = attr_chain(e.func)
            if ch and ch[-1] == "__class__":
                return True
            if ch and len(ch) >= 2 and ch[-2] == "mido":   # mido.Message(...) etc.
                return True
        return False

    for n in walk_local(fn):
        targets: list[ast.expr] = []
        value = None
        if isinstance(n, ast.Assign):
            targets, value = n.targets, n.value
        elif isinstance(n, ast.AnnAssign) and n.value is not None:
            targets, value = [n.target], n.value
        elif isinstance(n, (ast.For, ast.comprehension)):
            for t in ast.walk(n.target):
                if isinstance(t, ast.Name):
                    cand[t.id] = False
            continue
        elif isinstance(n, ast.AugAssign):
            if isinstance(n.target, ast.Name):
                cand[n.target.id] = False
            continue
        elif isinstance(n, (ast.With,)):
            for it in n.items:
                if it.optional_vars is not None:
                    for t in ast.walk(it.optional_vars):
                        if isinstance(t, ast.Name):
                            cand[t.id] = False
            continue
        elif isinstance(n, ast.NamedExpr):
            if isinstance(n.target, ast.Name):
                cand[n.target.id] = False
            continue
        for t in targets:
            if isinstance(t, ast.Name):
                ok = is_fresh_expr(value)
                cand[t.id] = cand.get(t.id, True) and ok
            else:
                for x in ast.walk(t):
                    if isinstance(x, ast.Name) and isinstance(x.ctx, ast.Store):
                        cand[x.id] = False
    return {k for k, v in cand.items() if v and k not in params}


def aliases_of_messages(fn: ast.FunctionDef) -> set[str]:
    out = set()
    for n in walk_local(fn):
        if isinstance(n, ast.Assign) and attr_chain(n.value) == ["self", "_messages"]:
            for t in n.targets:
                if isinstance(t, ast.Name):
                    out.add(t.id)
    return out


def param_mutations(fi: FuncInfo) -> set[int]:
    """Indices of parameters of a module-level function whose list structure the function may mutate."""
    params = fi.params
    out = set()
    for n in walk_local(fi.node):
        if isinstance(n, ast.Call):
            recv, name = call_method(n)
            if isinstance(recv, ast.Name) and recv.id in params and name in LIST_MUTATORS | {"sort"}:
                out.add(params.index(recv.id))
        elif isinstance(n, (ast.Assign, ast.AugAssign, ast.Delete)):
            tg = n.targets if isinstance(n, (ast.Assign, ast.Delete)) else [n.target]
            for t in tg:
                if isinstance(t, ast.Subscript) and isinstance(t.value, ast.Name) and t.value.id in params:
                    out.add(params.index(t.value.id))
    return out


class Effects:
    def __init__(self, program: Program):
        self.p = program
        self._memo: dict[str, list[Write]] = {}
        self._active: set[str] = set()

    def writes(self, cls: str, method: str) -> list[Write]:
        fi = self.p.lookup_method(cls, method)
        if fi is None:
            return []
        key = f"{cls}::{fi.qualname}"
        if key in self._memo:
            return self._memo[key]
        if key in self._active:
            return []
        self._active.add(key)
        out = self._analyse(cls, fi)
        self._active.discard(key)
        self._memo[key] = out
        return out

    def classify(self, cls: str, method: str) -> str:
        ws = self.writes(cls, method)
        if any(w.kind in ("rebind", "listmut", "attr") for w in ws):
            return "MUTATE"
        if any(w.kind == "sort" for w in ws):
            return "REORDER"
        return "PURE"

    def _analyse(self, cls: str, fi: FuncInfo) -> list[Write]:
        fn = fi.node
        fresh = fresh_locals(fn, self.p)
        alias = aliases_of_messages(fn)
        out: list[Write] = []

        def is_msgs(e: ast.AST) -> bool:
            return attr_chain(e) == ["self", "_messages"] or (isinstance(e, ast.Name) and e.id in alias)

        def rooted_in_msgs(e: ast.AST) -> bool:
            while isinstance(e, (ast.Subscript, ast.Attribute)):
                if is_msgs(e):
                    return True
                e = e.value
            return is_msgs(e)

        def store_target(t: ast.expr, node: ast.AST):
            if isinstance(t, (ast.Tuple, ast.List)):
                for x in t.elts:
                    store_target(x, node)
                return
            if isinstance(t, ast.Attribute):
                base = t.value
                if isinstance(base, ast.Name) and base.id == "self":
                    if t.attr == "_messages":
                        out.append(Write("rebind", None, node, fi.qualname))
                    return
                if isinstance(base, ast.Name) and base.id in fresh:
                    return
                out.append(Write("attr", t.attr, node, fi.qualname, base=src(base)))
            elif isinstance(t, ast.Subscript):
                if rooted_in_msgs(t.value):
                    out.append(Write("listmut", None, node, fi.qualname))

        for n in walk_local(fn):
            if isinstance(n, ast.Assign):
                for t in n.targets:
                    store_target(t, n)
            elif isinstance(n, (ast.AugAssign, ast.AnnAssign)):
                if not (isinstance(n, ast.AnnAssign) and n.value is None):
                    store_target(n.target, n)
            elif isinstance(n, ast.Delete):
                for t in n.targets:
                    store_target(t, n)
            elif isinstance(n, ast.Call):
                recv, name = call_method(n)
                if recv is not None and is_msgs(recv):
                    if name == "sort":
                        out.append(Write("sort", None, n, fi.qualname))
                    elif name in LIST_MUTATORS:
                        out.append(Write("listmut", None, n, fi.qualname))
                    continue
                if isinstance(recv, ast.Name) and recv.id == "self" and name:
                    callee = self.p.lookup_method(cls, name)
                    if callee is not None:
                        for w in self.writes(cls, name):
                            out.append(Write(w.kind, w.attr, w.node, w.func, w.base, via=(fi.qualname,) + w.via))
                    continue
                # self._messages handed to a function
                arg_idx = [i for i, a in enumerate(n.args) if is_msgs(a)]
                kw_names = [k.arg for k in n.keywords if is_msgs(k.value)]
                if arg_idx or kw_names:
                    if recv is None and name in PURE_BUILTINS:
                        continue
                    ch = attr_chain(n.func)
                    if ch and tuple(ch) in PURE_MODULE_CALLS:
                        continue
                    callee = self.p.module_funcs.get(name) if recv is None else None
                    if callee is not None:
                        muts = param_mutations(callee)
                        params = callee.params
                        hit = any(i in muts for i in arg_idx) or any(k in params and params.index(k) in muts for k in kw_names)
                        if hit:
                            out.append(Write("listmut", None, n, fi.qualname, via=(callee.qualname,)))
                        continue
                    if recv is not None and name in ("extend", "append", "index", "count", "__contains__"):
                        continue  # other_list.extend(self._messages) reads only
                    out.append(Write("listmut", None, n, fi.qualname, via=("<unresolved call>",)))
        return out
