"""TYPECASE -- per-message-type abstract execution of a loop body with event counting.

For one enum member T of MessageType the body of a message loop is interpreted under the assumption
`msg.message_type == T`: comparisons of the message's type with enum members are decided, every other condition is
nondeterministic.  The abstract state counts *events* (appends of the message / of a newly built message to a list,
accumulator updates, resets, calls) as [min,max] intervals over all paths, and tracks a few value classes (is a
variable the message itself / None / a new message).  The result is, per exit kind (end of body, continue, break,
return, raise), the interval of every event -- "on every path the message is appended exactly once" is
min == max == 1.  This is dataflow analysis on the structured program, not path enumeration.
"""
from __future__ import annotations

import ast
from dataclasses import dataclass, field

from ..absint import AbsInt, _Frame
from ..astutil import attr_chain, call_method, enum_member, short, src
from ..model import Program, FuncInfo

INF = 9
TOP = frozenset(["top"])


def V(*xs) -> frozenset:
    return frozenset(xs)


@dataclass
class TCState:
    counts: dict = field(default_factory=dict)     # event -> (min,max)
    vals: dict = field(default_factory=dict)       # name -> 'msg' | 'none' | 'new:<T>' | 'top' | ('const', v)

    def copy(self):
        return TCState(dict(self.counts), dict(self.vals))

    def bump(self, ev, n=1):
        lo, hi = self.counts.get(ev, (0, 0))
        self.counts[ev] = (min(lo + n, INF), min(hi + n, INF))

    def get(self, ev):
        return self.counts.get(ev, (0, 0))


def join_states(a: TCState, b: TCState) -> TCState:
    out = TCState()
    for k in set(a.counts) | set(b.counts):
        la, ha = a.counts.get(k, (0, 0))
        lb, hb = b.counts.get(k, (0, 0))
        out.counts[k] = (min(la, lb), max(ha, hb))
    for k in set(a.vals) | set(b.vals):
        va, vb = a.vals.get(k, TOP), b.vals.get(k, TOP)
        out.vals[k] = va | vb
    return out


class TypeCase(AbsInt):
    def __init__(self, program: Program, fi: FuncInfo, msg_names: set[str], mtype: str | None,
                 type_vars: set[str] | None = None, enum: str = "MessageType", extra_true: list[str] | None = None,
                 decide=None):
        super().__init__()
        self.p = program
        self.fi = fi
        self.msg_names = set(msg_names)
        self.type_vars = set(type_vars or ())
        self.mtype = mtype
        self.enum = enum
        self.exits: list[tuple[str, ast.AST | None, TCState]] = []
        self.decide_hook = decide
        self.loop_depth = 0

    # ---- lattice
    def join(self, a, b):
        return join_states(a, b)

    def equal(self, a, b):
        return a.counts == b.counts and a.vals == b.vals

    def copy(self, s):
        return s.copy()

    # ---- helpers
    def is_msg(self, e: ast.AST, st: TCState) -> bool:
        """The expression certainly denotes the message being processed."""
        if isinstance(e, ast.Name):
            v = st.vals.get(e.id)
            if v is None:
                return e.id in self.msg_names
            return v == V("msg")
        return False

    @staticmethod
    def resolve_alias(name: str, st: TCState) -> str:
        v = st.vals.get(name)
        if v is not None and len(v) == 1:
            x = next(iter(v))
            if isinstance(x, str) and x.startswith("alias:"):
                return x[6:]
        return name

    def is_type_expr(self, e: ast.AST, st: TCState) -> bool:
        if isinstance(e, ast.Attribute) and e.attr == "message_type" and self.is_msg(e.value, st):
            return True
        if isinstance(e, ast.Name) and e.id in self.type_vars:
            return True
        return False

    def classify(self, e: ast.AST, st: TCState) -> str:
        if self.is_msg(e, st):
            return "msg"
        if isinstance(e, ast.Constant) and e.value is None:
            return "none"
        if isinstance(e, ast.Name):
            v = st.vals.get(e.id)
            if v is not None and len(v) == 1:
                x = next(iter(v))
                if isinstance(x, str) and (x.startswith("new:") or x == "none"):
                    return x
            if v is not None and "msg" in v:
                return "maybe-msg"
            return "other"
        if isinstance(e, ast.Call):
            recv, name = call_method(e)
            if recv is None and name in ("Message",):
                for k in e.keywords:
                    if k.arg == "message_type":
                        m = enum_member(k.value, self.enum)
                        if m is None and self.mtype is not None and self.is_type_expr(k.value, st):
                            m = self.mtype           # `Message(message_type=msg.message_type, ..)`: the kind being assumed
                        return f"new:{m or '?'}"
                return "new:?"
            if recv is not None and name == "copy" and self.is_msg(recv, st):
                return "copy-of-msg"
            if attr_chain(e.func) in (["mido", "Message"], ["mido", "MetaMessage"]):
                return "new:mido"
        return "other"

    def decide_type_test(self, test: ast.expr, st: TCState) -> bool | None:
        """Truth value of a test on the message type under the assumption type == self.mtype (None = not about type)."""
        if self.mtype is None:
            return None
        if isinstance(test, ast.Compare) and len(test.ops) == 1:
            l, op, r = test.left, test.ops[0], test.comparators[0]
            if self.is_type_expr(r, st) and not self.is_type_expr(l, st):
                l, r = r, l
            if self.is_type_expr(l, st):
                m = enum_member(r, self.enum)
                if m is not None:
                    if isinstance(op, (ast.Eq, ast.Is)):
                        return m == self.mtype
                    if isinstance(op, (ast.NotEq, ast.IsNot)):
                        return m != self.mtype
                if isinstance(op, (ast.In, ast.NotIn)) and not isinstance(r, (ast.List, ast.Tuple, ast.Set)):
                    r = self.constant_collection(r) or r        # `in Cls._NOTE_TYPES` / a module-level tuple of members
                if isinstance(op, (ast.In, ast.NotIn)) and isinstance(r, (ast.List, ast.Tuple, ast.Set)):
                    ms = [enum_member(x, self.enum) for x in r.elts]
                    if all(x is not None for x in ms):
                        res = self.mtype in ms
                        return res if isinstance(op, ast.In) else not res
        return None

    def constant_collection(self, e: ast.AST):
        """The tuple / list / set display a class attribute (`Cls.NAME`, `self.NAME`) or a module-level name is bound to, once, else None."""
        val = None
        if isinstance(e, ast.Attribute) and isinstance(e.value, ast.Name):
            cls = self.fi.cls if e.value.id in ("self", "cls") else e.value.id
            ci = self.p.classes.get(cls) if cls else None
            if ci is not None:
                val = ci.class_attrs.get(e.attr)
        elif isinstance(e, ast.Name):
            mod = self.p.modules.get(self.fi.file)
            if mod is not None:
                defs = [a.value for a in mod.tree.body if isinstance(a, ast.Assign) and len(a.targets) == 1 and isinstance(a.targets[0], ast.Name) and a.targets[0].id == e.id]
                val = defs[0] if len(defs) == 1 else None
        return val if isinstance(val, (ast.Tuple, ast.List, ast.Set)) else None

    def truth(self, test: ast.expr, st: TCState) -> bool | None:
        if self.decide_hook is not None:
            r = self.decide_hook(test, st, self)
            if r is not None:
                return r
        t = self.decide_type_test(test, st)
        if t is not None:
            return t
        if isinstance(test, ast.Name) and "$b:" + test.id in st.vals and len(st.vals["$b:" + test.id]) == 1:
            return next(iter(st.vals["$b:" + test.id]))          # a local holding the outcome of a test that was decided
        if isinstance(test, ast.UnaryOp) and isinstance(test.op, ast.Not):
            r = self.truth(test.operand, st)
            return None if r is None else not r
        if isinstance(test, ast.BoolOp):
            vals = [self.truth(v, st) for v in test.values]
            if isinstance(test.op, ast.And):
                if any(v is False for v in vals):
                    return False
                if all(v is True for v in vals):
                    return True
                return None
            if any(v is True for v in vals):
                return True
            if all(v is False for v in vals):
                return False
            return None
        if self.none_test(test) is not None:
            name, positive = self.none_test(test)
            v = st.vals.get(name, V("msg") if name in self.msg_names else TOP)
            if "top" in v or "other" in v or any(isinstance(x, str) and x.startswith("alias:") for x in v):
                return None
            if v == V("none"):
                return positive
            if "none" not in v:
                return not positive
        return None

    @staticmethod
    def none_test(test: ast.expr):
        """`X is None` -> (X, True); `X is not None` -> (X, False)."""
        if isinstance(test, ast.Compare) and len(test.ops) == 1 and isinstance(test.comparators[0], ast.Constant) \
                and test.comparators[0].value is None and isinstance(test.left, ast.Name):
            if isinstance(test.ops[0], (ast.Is, ast.Eq)):
                return test.left.id, True
            if isinstance(test.ops[0], (ast.IsNot, ast.NotEq)):
                return test.left.id, False
        return None

    def cond(self, test, st):
        t = self.truth(test, st)
        self.scan_expr(test, st)
        if t is True:
            return st.copy(), None
        if t is False:
            return None, st.copy()
        a, b = st.copy(), st.copy()
        nt = self.none_test(test)
        if nt is not None:
            name, positive = nt
            v = st.vals.get(name, TOP)
            if "top" not in v:
                yes, no = V("none"), v - V("none")
                (a if positive else b).vals[name] = yes
                (b if positive else a).vals[name] = no
        return a, b

    # ---- events
    def event_for_call(self, c: ast.Call, st: TCState):
        recv, name = call_method(c)
        if recv is not None and name in ("append", "add_message", "_add_message_unsorted", "add_absolute_message",
                                         "add_relative_message", "insert", "extend"):
            arg = c.args[-1] if (name == "insert" and len(c.args) >= 2) else (c.args[0] if c.args else None)
            if arg is None and c.keywords:
                arg = c.keywords[0].value
            rname = self.resolve_alias(recv.id, st) if isinstance(recv, ast.Name) else src(recv)
            return ("append", rname, self.classify(arg, st) if arg is not None else "other")
        if recv is None and name is not None:
            return ("call", name)
        if recv is not None:
            return ("call", f"{src(recv)}.{name}")
        return None

    def _helper(self, c: ast.Call, st: TCState):
        """A helper of the same class (self.h(...) / Class.h(...)) or a nested function that receives the message: (FuncInfo-like
        node, parameter bound to the message) -- so that logic moved out of the loop body into a helper is still seen."""
        if getattr(self, "_depth", 0) >= 2:
            return None
        target = None
        if isinstance(c.func, ast.Attribute) and isinstance(c.func.value, ast.Name) and self.fi.cls and c.func.value.id in ("self", "cls", self.fi.cls):
            m = self.p.lookup_method(self.fi.cls, c.func.attr)
            if m is not None and m.qualname != self.fi.qualname:
                target = m.node
                skip = 0 if m.is_static else 1
        elif isinstance(c.func, ast.Name):
            nested = next((n for n in ast.walk(self.fi.node) if isinstance(n, ast.FunctionDef) and n.name == c.func.id and n is not self.fi.node), None)
            if nested is not None:
                target, skip = nested, 0
        if target is None:
            return None
        params = [a.arg for a in target.args.args][skip:]
        for i, a in enumerate(c.args):
            if i < len(params) and self.is_msg(a, st):
                return target, params[i]
        for k in c.keywords:
            if k.arg in params and self.is_msg(k.value, st):
                return target, k.arg
        return None

    def _run_helper(self, target: ast.FunctionDef, param: str, st: TCState) -> None:
        sub = type(self).__new__(type(self))
        sub.__dict__.update(self.__dict__)
        AbsInt.__init__(sub)
        sub.msg_names = {param}
        sub.type_vars = set()
        sub._depth = getattr(self, "_depth", 0) + 1
        exits = sub.run_body(target.body, TCState())
        acc = None
        for k, s_ in exits:
            if k in ("end", "return"):
                acc = s_ if acc is None else join_states(acc, s_)
        if acc is None:
            return
        # sequential composition: the helper's event intervals are added to the caller's
        for ev, (lo, hi) in acc.counts.items():
            l0, h0 = st.counts.get(ev, (0, 0))
            st.counts[ev] = (min(l0 + lo, INF), min(h0 + hi, INF))

    def scan_expr(self, e: ast.AST | None, st: TCState) -> None:
        if e is None:
            return
        for n in ast.walk(e):
            if isinstance(n, ast.Call):
                h = self._helper(n, st)
                if h is not None:
                    self._run_helper(h[0], h[1], st)
                    continue
                ev = self.event_for_call(n, st)
                if ev is not None:
                    st.bump(ev)

    def stmt(self, s, st: TCState):
        if isinstance(s, ast.Expr):
            self.scan_expr(s.value, st)
            return st
        if isinstance(s, ast.Assign):
            self.scan_expr(s.value, st)
            for t in s.targets:
                if isinstance(t, ast.Name) and isinstance(s.value, (ast.Compare, ast.BoolOp, ast.UnaryOp)) and t.id not in self.msg_names:
                    # `flag = msg.message_type == WAIT`: under the assumed kind this is a constant
                    tv = self.truth(s.value, st)
                    if tv is not None:
                        st.vals["$b:" + t.id] = frozenset([tv])
                        st.vals[t.id] = V("other")
                        st.bump(("set", t.id, repr(tv)))
                        continue
                    st.vals.pop("$b:" + t.id, None)
                elif isinstance(t, ast.Name):
                    st.vals.pop("$b:" + t.id, None)
                    if isinstance(s.value, ast.Constant) and isinstance(s.value.value, bool):
                        st.vals["$b:" + t.id] = frozenset([s.value.value])
                if isinstance(t, ast.Name):
                    cls = self.classify(s.value, st)
                    if t.id in self.msg_names and not (isinstance(s.value, ast.Constant) and s.value.value is None):
                        st.vals[t.id] = V("msg")       # declared by the client as (an alias of) the message
                    elif isinstance(s.value, ast.Constant) and s.value.value is not None:
                        st.vals[t.id] = V("other")
                        st.bump(("set", t.id, repr(s.value.value)))
                    elif isinstance(s.value, ast.Name) and cls == "other" and s.value.id not in self.msg_names:
                        # `target = current_sequence`: the name now stands for that object (used to name the receiver of an add)
                        st.vals[t.id] = V("alias:" + self.resolve_alias(s.value.id, st))
                        st.bump(("assign", t.id, cls))
                    else:
                        st.vals[t.id] = V(cls) if cls in ("msg", "none") or cls.startswith("new:") else V("other")
                        st.bump(("assign", t.id, cls))
                    if isinstance(s.value, ast.Attribute) and s.value.attr == "message_type" and self.is_msg(s.value.value, st):
                        self.type_vars.add(t.id)
                elif isinstance(t, ast.Attribute):
                    st.bump(("attrstore", "msg" if self.is_msg(t.value, st) else src(t.value), t.attr))
                elif isinstance(t, ast.Subscript):
                    st.bump(("substore", src(t.value)))
                    if isinstance(t.slice, ast.Slice):
                        st.bump(("splice", src(t.value), src(s.value)))
            return st
        if isinstance(s, ast.AugAssign):
            self.scan_expr(s.value, st)
            if isinstance(s.target, ast.Name):
                what = "msg." + s.value.attr if isinstance(s.value, ast.Attribute) and self.is_msg(s.value.value, st) else "other"
                st.bump(("aug", s.target.id, type(s.op).__name__, what))
                st.vals[s.target.id] = V("other")
            elif isinstance(s.target, ast.Attribute):
                st.bump(("attrstore", "msg" if self.is_msg(s.target.value, st) else src(s.target.value), s.target.attr))
            return st
        if isinstance(s, ast.Assert):
            return st
        return st

    def for_iter(self, node, st):
        self.scan_expr(node.iter, st)
        return st

    def for_bind(self, node, st):
        for n in ast.walk(node.target):
            if isinstance(n, ast.Name):
                st.vals[n.id] = TOP
        return st

    def on_return(self, node, st):
        self.scan_expr(node.value, st)

    # ---- driver: run the loop body once (one message)
    def run_body(self, body: list[ast.stmt], entry: TCState | None = None) -> list[tuple[str, TCState]]:
        self._frames = [_Frame()]
        st = entry or TCState()
        end = self.block(body, st)
        fr = self._frames[0]
        out = []
        if end is not None:
            out.append(("end", end))
        for c in fr.continues:
            out.append(("continue", c))
        for b in fr.breaks:
            out.append(("break", b))
        for _, r in fr.returns:
            out.append(("return", r))
        for _, r in fr.raises:
            out.append(("raise", r))
        return out


def find_message_loops(fn: ast.FunctionDef) -> list[ast.For]:
    """`for <name> in <...>._messages` / a name bound from it: loops over a message list."""
    out = []
    for n in ast.walk(fn):
        if isinstance(n, ast.For) and isinstance(n.target, ast.Name):
            out.append(n)
    return out


def total(exits: list[tuple[str, TCState]], ev, kinds=("end", "continue")) -> tuple[int, int]:
    """[min,max] of an event over all exits of the given kinds."""
    lo, hi = None, None
    for k, st in exits:
        if k not in kinds:
            continue
        a, b = st.get(ev)
        lo = a if lo is None else min(lo, a)
        hi = b if hi is None else max(hi, b)
    return (lo or 0, hi or 0) if lo is not None else (0, 0)


def events_matching(exits, pred, kinds=("end", "continue")) -> dict:
    """Sum the intervals of all events satisfying pred, per exit; then [min,max] over exits."""
    lo, hi = None, None
    for k, st in exits:
        if k not in kinds:
            continue
        a = sum(v[0] for e, v in st.counts.items() if pred(e))
        b = sum(v[1] for e, v in st.counts.items() if pred(e))
        lo = a if lo is None else min(lo, a)
        hi = b if hi is None else max(hi, b)
    return (lo, hi) if lo is not None else None
