"""KEY -- index-domain analysis of bookkeeping dictionaries (C05, C06, C07, C08).

Every key expression gets a *key kind* from the message attribute it derives from (`.channel` -> CH, `.note` ->
PITCH, tuples combine).  Every local dictionary gets a shape: the set of key kinds used per nesting level, collected
from all subscripts, `get`/`pop`/`setdefault` calls and `in` tests.  Loop variables over a dictionary inherit the
kind of the level they enumerate.  Flow-insensitive, per function, with a one-level summary for functions returning
a dictionary (what its first level is keyed by).

KEY1: all accesses of one level use one kind (a channel used where pitches are stored is a domain error).
KEY2: a dictionary whose key path contains PITCH must also contain CH, unless it is allocated inside a loop over the
      per-channel partition of the events (values/items of a CH-keyed dictionary): otherwise equal pitches sounding on
      different channels collide in the bookkeeping.
"""
from __future__ import annotations

import ast
from dataclasses import dataclass, field

from ..astutil import attr_chain, call_method, short, ancestors
from ..model import Program, FuncInfo, walk_local

CH, PITCH = "CH", "PITCH"
ATTR_KIND = {"channel": CH, "note": PITCH}


@dataclass
class DictInfo:
    name: str
    alloc: ast.AST | None
    levels: dict[int, list[tuple[object, ast.AST]]] = field(default_factory=dict)   # level -> [(kind, node)]
    origin: str = "local"          # local | call:<fn> | param
    per_channel_scope: bool = False
    summary_level1: object = None

    def kinds(self, level: int) -> set:
        return {k for k, _ in self.levels.get(level, []) if k is not None}

    def all_kinds_flat(self) -> set:
        out = set()
        for lv in self.levels:
            for k in self.kinds(lv):
                if isinstance(k, tuple):
                    out.update(k)
                else:
                    out.add(k)
        if self.summary_level1 is not None:
            out.add(self.summary_level1)
        return out

    def shape(self) -> str:
        if not self.levels and self.summary_level1 is None:
            return "[]"
        out = []
        for lv in sorted(set(self.levels) | ({1} if self.summary_level1 is not None else set())):
            ks = set(self.kinds(lv))
            if lv == 1 and self.summary_level1 is not None:
                ks.add(self.summary_level1)
            out.append("|".join(sorted(_show(k) for k in ks)) or "?")
        return "[" + "][".join(out) + "]"


def _show(k) -> str:
    if isinstance(k, tuple):
        return "(" + ",".join(_show(x) for x in k) + ")"
    return str(k)


class KeyAnalysis:
    def __init__(self, program: Program, fi: FuncInfo, summaries: dict[str, object] | None = None):
        self.p = program
        self.fi = fi
        self.summaries = summaries or {}
        self.env: dict[str, set] = {}            # name -> set of key kinds
        self.dicts: dict[str, DictInfo] = {}
        self.refs: dict[str, tuple[str, int]] = {}   # local name -> (dict name, level) alias of a sub-dictionary
        self.body = list(walk_local(fi.node))
        self._find_dicts()
        for _ in range(6):
            before = (repr(sorted((k, sorted(map(_show, v))) for k, v in self.env.items())),
                      {d: {lv: len(x) for lv, x in i.levels.items()} for d, i in self.dicts.items()}, dict(self.refs))
            for i in self.dicts.values():
                i.levels = {}
            self._pass()
            after = (repr(sorted((k, sorted(map(_show, v))) for k, v in self.env.items())),
                     {d: {lv: len(x) for lv, x in i.levels.items()} for d, i in self.dicts.items()}, dict(self.refs))
            if before == after:
                break
        self._scopes()

    # ------------------------------------------------------------------
    def _is_dict_alloc(self, e: ast.AST) -> bool:
        if isinstance(e, ast.Dict):
            return True
        if isinstance(e, ast.DictComp):
            return True
        if isinstance(e, ast.Call) and isinstance(e.func, ast.Name) and e.func.id in ("dict", "defaultdict", "OrderedDict"):
            return True
        if isinstance(e, ast.Call) and isinstance(e.func, ast.Attribute) and e.func.attr in ("defaultdict", "OrderedDict"):
            return True
        return False

    def _find_dicts(self) -> None:
        for n in self.body:
            if isinstance(n, (ast.Assign, ast.AnnAssign)) and getattr(n, "value", None) is not None:
                tg = n.targets if isinstance(n, ast.Assign) else [n.target]
                for t in tg:
                    if not isinstance(t, ast.Name):
                        continue
                    if self._is_dict_alloc(n.value):
                        self.dicts.setdefault(t.id, DictInfo(t.id, n))
                    elif isinstance(n.value, ast.Call):
                        _, name = call_method(n.value)
                        if name in self.summaries and self.summaries[name] is not None:
                            di = self.dicts.setdefault(t.id, DictInfo(t.id, n, origin=f"call:{name}"))
                            di.summary_level1 = self.summaries[name]

    def kk(self, e: ast.AST):
        """Key kind of an expression (None = unknown)."""
        if isinstance(e, ast.Attribute) and e.attr in ATTR_KIND:
            return ATTR_KIND[e.attr]
        if isinstance(e, ast.Name):
            ks = self.env.get(e.id)
            if ks and len(ks) == 1:
                return next(iter(ks))
            if ks and len(ks) > 1:
                return ("MIXED",) + tuple(sorted(map(_show, ks)))
            return None
        if isinstance(e, ast.Tuple):
            ks = tuple(self.kk(x) for x in e.elts)
            if any(k is not None for k in ks):
                return tuple(k if k is not None else "?" for k in ks)
            return None
        return None

    def dict_ref(self, e: ast.AST) -> tuple[str, int] | None:
        """If e denotes (a level of) a tracked dictionary, return (name, level of the keys it is indexed by)."""
        if isinstance(e, ast.Name):
            if e.id in self.dicts:
                return (e.id, 1)
            return self.refs.get(e.id)
        if isinstance(e, ast.Subscript) and not isinstance(e.slice, ast.Slice):
            b = self.dict_ref(e.value)
            if b:
                return (b[0], b[1] + 1)
        if isinstance(e, ast.Call):
            recv, name = call_method(e)
            if recv is not None and name in ("get", "setdefault", "pop") and e.args:
                b = self.dict_ref(recv)
                if b:
                    return (b[0], b[1] + 1)
        return None

    def record(self, ref: tuple[str, int], key: ast.AST, node: ast.AST) -> None:
        di = self.dicts[ref[0]]
        di.levels.setdefault(ref[1], []).append((self.kk(key), node))

    def bind(self, name: str, kind) -> None:
        if kind is not None:
            self.env.setdefault(name, set()).add(kind)

    def _pass(self) -> None:
        for n in self.body:
            # accesses
            if isinstance(n, ast.Subscript) and not isinstance(n.slice, ast.Slice):
                b = self.dict_ref(n.value)
                if b:
                    self.record(b, n.slice, n)
            elif isinstance(n, ast.Call):
                recv, name = call_method(n)
                if recv is not None and name in ("get", "setdefault", "pop") and n.args:
                    b = self.dict_ref(recv)
                    if b:
                        self.record(b, n.args[0], n)
            elif isinstance(n, ast.Compare) and len(n.ops) == 1 and isinstance(n.ops[0], (ast.In, ast.NotIn)):
                b = self.dict_ref(n.comparators[0])
                if b:
                    self.record(b, n.left, n)
        for n in self.body:
            # bindings (after all accesses of this pass are recorded, so level kinds are complete)
            if isinstance(n, ast.Assign):
                for t in n.targets:
                    self._assign(t, n.value)
            elif isinstance(n, ast.AnnAssign) and n.value is not None:
                self._assign(n.target, n.value)
            elif isinstance(n, (ast.For, ast.comprehension)):
                self._loop(n.target, n.iter)

    def _assign(self, t: ast.AST, v: ast.AST) -> None:
        if isinstance(t, ast.Name):
            self.bind(t.id, self.kk(v))
            r = self.dict_ref(v)
            if r and t.id not in self.dicts:
                self.refs[t.id] = r
        elif isinstance(t, ast.Tuple) and isinstance(v, ast.Tuple) and len(t.elts) == len(v.elts):
            for a, b in zip(t.elts, v.elts):
                self._assign(a, b)

    def level_kind(self, ref: tuple[str, int]):
        di = self.dicts[ref[0]]
        ks = set(di.kinds(ref[1]))
        if ref[1] == 1 and di.summary_level1 is not None:
            ks.add(di.summary_level1)
        ks = {k for k in ks if not (isinstance(k, tuple) and k and k[0] == "MIXED")}
        if len(ks) == 1:
            return next(iter(ks))
        return None

    def _loop(self, target: ast.AST, it: ast.AST) -> None:
        # for k in D / D.keys()
        d = None
        mode = None
        if isinstance(it, ast.Call):
            recv, name = call_method(it)
            if recv is not None and name in ("keys", "values", "items"):
                d = self.dict_ref(recv)
                mode = name
            elif recv is None and name in ("list", "sorted", "enumerate", "reversed") and it.args:
                inner = it.args[0]
                if name == "enumerate":
                    if isinstance(target, ast.Tuple) and len(target.elts) == 2:
                        self._loop(target.elts[1], inner)
                    return
                self._loop(target, inner)
                return
        else:
            d = self.dict_ref(it)
            mode = "keys" if d else None
        if d is None:
            return
        if mode == "keys" and isinstance(target, ast.Name):
            # the loop variable ranges over the keys stored at this level: it has their kind, but it is *not* itself an
            # access (recorded kinds come from stores/lookups only)
            self.bind(target.id, self.level_kind(d))
        elif mode == "items" and isinstance(target, ast.Tuple) and len(target.elts) == 2:
            if isinstance(target.elts[0], ast.Name):
                self.bind(target.elts[0].id, self.level_kind(d))
            if isinstance(target.elts[1], ast.Name):
                self.refs[target.elts[1].id] = (d[0], d[1] + 1)
        elif mode == "values" and isinstance(target, ast.Name):
            self.refs[target.id] = (d[0], d[1] + 1)

    def _scopes(self) -> None:
        for di in self.dicts.values():
            if di.alloc is None:
                continue
            for a in ancestors(di.alloc):
                if isinstance(a, ast.For):
                    it = a.iter
                    ref = None
                    if isinstance(it, ast.Call):
                        recv, name = call_method(it)
                        if recv is not None and name in ("values", "items"):
                            ref = self.dict_ref(recv)
                            # the table iterated in place: `for group in self.get_message_pairings().values():`
                            if ref is None and isinstance(recv, ast.Call) and self.summaries.get(call_method(recv)[1]) == CH:
                                di.per_channel_scope = True
                    if ref and self.level_kind(ref) == CH:
                        di.per_channel_scope = True
                if a is self.fi.node:
                    break

    def returned_dict_level1(self):
        out = set()
        for n in self.body:
            if isinstance(n, ast.Return) and isinstance(n.value, ast.Name) and n.value.id in self.dicts:
                out.add(self.level_kind((n.value.id, 1)))
        if len(out) == 1:
            return next(iter(out))
        return None


def summaries(program: Program) -> dict[str, object]:
    """method name -> key kind of level 1 of the dictionary it returns (only when all same-named methods agree)."""
    out: dict[str, set] = {}
    for rnd in range(2):
        cur = {k: (next(iter(v)) if len(v) == 1 else None) for k, v in out.items()}
        out = {}
        for fi in program.all_functions():
            if fi.parent_func is not None:
                continue
            if not any(isinstance(n, ast.Return) and isinstance(n.value, ast.Name) for n in walk_local(fi.node)):
                continue
            ka = KeyAnalysis(program, fi, cur)
            k = ka.returned_dict_level1()
            if k is not None:
                out.setdefault(fi.name, set()).add(k)
    return {k: (next(iter(v)) if len(v) == 1 else None) for k, v in out.items()}


def check_function(ctx, qualname: str, rule_prefix: str = "KEY", expect_min: int = 1, summ=None) -> KeyAnalysis:
    p = ctx.p
    fi = p.func(qualname)
    ctx.analysed(fi)
    if summ is None:
        summ = summaries(p)
    ka = KeyAnalysis(p, fi, summ)
    n = 0
    n_pitch_only = 0
    for name, di in sorted(ka.dicts.items(), key=lambda kv: getattr(kv[1].alloc, "lineno", 0)):
        flat = di.all_kinds_flat()
        if not (flat & {CH, PITCH}) and not any(isinstance(k, tuple) for lv in di.levels for k in di.kinds(lv)):
            continue   # not a bookkeeping dictionary over channels/pitches
        n += 1
        inst = f"{qualname}: dictionary `{name}` keyed {di.shape()}"
        ctx.sample({"function": qualname, "dictionary": name, "shape": di.shape(), "per_channel_scope": di.per_channel_scope})
        # KEY1
        bad1 = False
        for lv in sorted(di.levels):
            ks = di.kinds(lv)
            if lv == 1 and di.summary_level1 is not None:
                ks = ks | {di.summary_level1}
            ks = {k for k in ks}
            if len(ks) > 1:
                bad1 = True
                offending = [(k, nd) for k, nd in di.levels[lv] if k is not None]
                tally: dict = {}
                for k, _ in offending:
                    tally[k] = tally.get(k, 0) + 1
                first = max(tally, key=lambda k: tally[k])          # the majority kind is what is stored
                odd = next(((k, nd) for k, nd in offending if k != first), offending[-1])
                ctx.violation(f"{rule_prefix}1", inst, function=qualname,
                              construct=f"bookkeeping dictionary level {lv} accessed with keys of different domains "
                                        f"({' vs '.join(sorted(_show(k) for k in ks))})",
                              message=f"`{name}` level {lv} is indexed by {sorted(_show(k) for k in ks)}: "
                                      f"`{short(odd[1], 60)}` uses a {_show(odd[0])} key where "
                                      f"{_show(first)} keys are stored", file=fi.file, node=odd[1])
        if not bad1:
            ctx.ok(f"{rule_prefix}1", inst)
        # KEY2
        has_pitch = PITCH in flat
        has_ch = CH in flat
        if has_pitch:
            if has_ch or di.per_channel_scope:
                ctx.ok(f"{rule_prefix}2", inst, "channel in key path" if has_ch else "allocated per channel")
            else:
                n_pitch_only += 1
                ctx.violation(f"{rule_prefix}2", inst, function=qualname,
                              construct=f"note bookkeeping dictionary #{n_pitch_only} keyed by pitch without channel (shape {di.shape()})",
                              message=f"`{name}` is keyed by pitch only ({di.shape()}) although the events it tracks are "
                                      f"not partitioned by channel: the same pitch on two channels collides "
                                      f"(sibling bookkeeping in get_message_pairings/normalise_relative keys by channel and pitch)",
                              file=fi.file, node=di.alloc)
    ctx.floor(f"bookkeeping dictionaries in {qualname}", n, expect_min)
    return ka
