"""NK -- numeric-kind abstract interpretation (int vs float), whole program, flow-sensitive per function.

A kind is a frozenset of atoms:
    'int' 'float' 'none' 'bool' 'str' 'obj'      scalars ('obj' = anything not tracked)
    'arg'                                         caller-supplied value, integer-typed by the property's hypothesis
                                                  (a scalar int or a container of ints)
    ('list', K) ('tuple', (K,...)) ('dict', Kkey, Kval)
Join is union (container atoms of the same constructor are merged).  "May be float" = 'float' in kind.

Inter-procedural: parameter kinds are the join of (a) the hypothesis kind for public entry points, (b) the kinds of
the arguments at every in-repo call site that may target the function (receiver-insensitive resolution by method
name when the receiver's class is unknown); return kinds and `self.attr` kinds are summaries; everything is iterated
to a fixpoint.  Inductive hypothesis for C11: every read of a Message numeric field yields int/None.
"""
from __future__ import annotations

import ast
from dataclasses import dataclass

from ..absint import AbsInt
from ..astutil import attr_chain, call_method, src, short
from ..model import Program, FuncInfo, AnalysisError, walk_local

Kind = frozenset

INT = frozenset(["int"])
FLOAT = frozenset(["float"])
NONE = frozenset(["none"])
BOOL = frozenset(["bool"])
STR = frozenset(["str"])
OBJ = frozenset(["obj"])
ARG = frozenset(["arg"])
BOT: Kind = frozenset()

MESSAGE_INT_FIELDS = {"time", "note", "velocity", "channel", "numerator", "denominator", "control", "program"}


def INST(cls: str) -> Kind:
    return frozenset([("inst", cls)])


def LIST(k: Kind) -> Kind:
    return frozenset([("list", k)])


def TUPLE(ks) -> Kind:
    return frozenset([("tuple", tuple(ks))])


def DICT(kk: Kind, kv: Kind) -> Kind:
    return frozenset([("dict", kk, kv)])


def join(a: Kind, b: Kind) -> Kind:
    if a == b:
        return a
    out = set()
    lists, dicts, tuples = [], [], {}
    for x in list(a) + list(b):
        if isinstance(x, tuple):
            if x[0] == "list":
                lists.append(x[1])
            elif x[0] == "dict":
                dicts.append((x[1], x[2]))
            elif x[0] == "tuple":
                tuples.setdefault(len(x[1]), []).append(x[1])
            else:
                out.add(x)
        else:
            out.add(x)
    if lists:
        k = BOT
        for l in lists:
            k = join(k, l)
        out.add(("list", k))
    if dicts:
        kk, kv = BOT, BOT
        for a_, b_ in dicts:
            kk, kv = join(kk, a_), join(kv, b_)
        out.add(("dict", kk, kv))
    for n, ts in tuples.items():
        cols = [BOT] * n
        for t in ts:
            cols = [join(c, e) for c, e in zip(cols, t)]
        out.add(("tuple", tuple(cols)))
    return frozenset(out)


def joins(ks) -> Kind:
    k = BOT
    for x in ks:
        k = join(k, x)
    return k


def elem(k: Kind) -> Kind:
    """Kind of an element obtained by iterating / indexing a value of kind k."""
    out = BOT
    for x in k:
        if isinstance(x, tuple):
            if x[0] == "list":
                out = join(out, x[1])
            elif x[0] == "tuple":
                out = join(out, joins(x[1]))
            elif x[0] == "dict":
                out = join(out, x[1])
        elif x == "arg":
            out = join(out, ARG)
        elif x == "str":
            out = join(out, STR)
        elif x in ("obj",):
            out = join(out, OBJ)
    return out


def may_float(k: Kind) -> bool:
    return "float" in k


def numeric_only(k: Kind) -> Kind:
    return frozenset(x for x in k if x in ("int", "float", "bool", "arg"))


def is_determined_int(k: Kind) -> bool:
    """True if the value is certainly int/None (no float, nothing unknown)."""
    return bool(k) and all(x in ("int", "none", "bool", "arg") for x in k)


def show(k: Kind) -> str:
    def one(x):
        if isinstance(x, tuple):
            if x[0] == "list":
                return f"list[{show(x[1])}]"
            if x[0] == "dict":
                return f"dict[{show(x[1])},{show(x[2])}]"
            if x[0] == "inst":
                return x[1]
            return "tuple[" + ",".join(show(e) for e in x[1]) + "]"
        return x
    return "|".join(sorted(one(x) for x in k)) if k else "bottom"


def arith(op: ast.operator, a: Kind, b: Kind) -> Kind:
    if not a or not b:
        return BOT      # an operand not computed yet (fixpoint in progress) or unreachable
    na, nb = numeric_only(a), numeric_only(b)
    if isinstance(op, ast.Div):
        if na or nb or not (a and b):
            return FLOAT
        return OBJ if ("obj" in a or "obj" in b) else FLOAT
    if isinstance(op, ast.Add):
        la = [x for x in a if isinstance(x, tuple) and x[0] == "list"]
        lb = [x for x in b if isinstance(x, tuple) and x[0] == "list"]
        if la or lb:
            return join(frozenset(la), frozenset(lb))
        if "str" in a or "str" in b:
            return STR
    if isinstance(op, ast.Mult):
        la = [x for x in a if isinstance(x, tuple) and x[0] == "list"]
        if la:
            return frozenset(la)
    out = set()
    if "float" in na or "float" in nb:
        out.add("float")
    if (na - {"float"}) and (nb - {"float"}):
        out.add("int")
    elif (na - {"float"}) or (nb - {"float"}):
        # int op unknown / int op float handled above
        if not ("float" in na or "float" in nb):
            out.add("int")
    if "obj" in a or "obj" in b or "none" in a or "none" in b:
        if not out:
            out.add("obj")
        elif ("obj" in a and not na) or ("obj" in b and not nb):
            out.add("obj")
    if isinstance(op, ast.Pow) and "float" not in out:
        out = {"int"}
    return frozenset(out) if out else OBJ


@dataclass
class Sink:
    rule: str                 # NK1 | NK2
    func: str
    file: str
    node: ast.AST
    expr: ast.AST
    kind: Kind
    what: str


class KindEngine:
    def __init__(self, program: Program, public_hypothesis: bool = True, float_ticks: bool = False):
        self.p = program
        self.public_hypothesis = public_hypothesis
        # float_ticks: drop the inductive hypothesis "message times are integers" (used by C02: tokenise must emit vocabulary
        # members for every input it accepts, and Sequence.scale(0.5) hands it float-valued ticks)
        self.float_ticks = float_ticks
        self.param_kinds: dict[tuple[str, str], Kind] = {}
        self.param_prov: dict[tuple[str, str], set] = {}
        self.ret_kinds: dict[str, Kind] = {}
        self.attr_kinds: dict[tuple[str, str], Kind] = {}
        self.class_attr_cache: dict[tuple[str, str], Kind] = {}
        self.sinks: dict[tuple, Sink] = {}
        self.node_kinds: dict[int, Kind] = {}
        self.unresolved_calls = 0
        self.resolved_calls = 0
        self.edges: dict[str, set[str]] = {}        # resolved call graph: caller qualname -> callee qualnames
        self.changed = False
        self.module_consts: dict[tuple[str, str], ast.expr] = {}
        for path, mod in program.modules.items():
            for n in mod.tree.body:
                if isinstance(n, ast.Assign) and len(n.targets) == 1 and isinstance(n.targets[0], ast.Name):
                    self.module_consts[(path, n.targets[0].id)] = n.value
        self._seed_params()

    # ------------------------------------------------------------------ seeding
    def ann_kind(self, ann: ast.expr | None) -> Kind | None:
        if ann is None:
            return None
        if isinstance(ann, ast.Constant) and isinstance(ann.value, str):
            try:
                ann = ast.parse(ann.value, mode="eval").body
            except SyntaxError:
                return OBJ
        if isinstance(ann, ast.Name) and ann.id in self.p.classes and ann.id not in self.p.enums:
            return INST(ann.id)
        if isinstance(ann, ast.Name):
            return {"int": INT, "float": ARG, "bool": BOOL, "str": STR, "list": ARG, "dict": OBJ,
                    "object": OBJ, "tuple": ARG}.get(ann.id, OBJ)
        if isinstance(ann, ast.Subscript):
            base = attr_chain(ann.value)
            b = base[-1] if base else ""
            if b in ("list", "List"):
                inner = self.ann_kind(ann.slice)
                return LIST(inner if inner is not None else OBJ)
            if b in ("Tuple", "tuple"):
                if isinstance(ann.slice, ast.Tuple):
                    return TUPLE([self.ann_kind(e) or OBJ for e in ann.slice.elts])
                return ARG
            return OBJ
        if isinstance(ann, ast.List):   # e.g. `[Bar]`
            return LIST(OBJ)
        if isinstance(ann, ast.BinOp):  # X | None
            return join(self.ann_kind(ann.left) or OBJ, self.ann_kind(ann.right) or OBJ)
        if isinstance(ann, ast.Constant) and ann.value is None:
            return NONE
        return OBJ

    def is_public(self, fi: FuncInfo) -> bool:
        if fi.parent_func is not None:
            return False
        return not fi.name.startswith("_") or (fi.name.startswith("__") and fi.name.endswith("__"))

    def _seed_params(self) -> None:
        for fi in self.p.all_functions():
            a = fi.node.args
            pos = a.posonlyargs + a.args
            defaults = [None] * (len(pos) - len(a.defaults)) + list(a.defaults)
            items = list(zip(pos, defaults)) + list(zip(a.kwonlyargs, a.kw_defaults))
            for i, (arg, default) in enumerate(items):
                if i == 0 and fi.cls and not fi.is_static and fi.parent_func is None:
                    self.param_kinds[(fi.qualname, arg.arg)] = INST(fi.cls)
                    continue
                k = BOT
                if self.is_public(fi) and self.public_hypothesis:
                    ak = self.ann_kind(arg.annotation)
                    k = ak if ak is not None else ARG
                if default is not None:
                    dk = self.const_kind(default, fi)
                    # a None default does not change what callers supply
                    k = join(k, dk)
                self.param_kinds[(fi.qualname, arg.arg)] = k
            if a.vararg:
                self.param_kinds[(fi.qualname, a.vararg.arg)] = LIST(ARG)
            if a.kwarg:
                self.param_kinds[(fi.qualname, a.kwarg.arg)] = OBJ

    def const_kind(self, e: ast.expr, fi: FuncInfo) -> Kind:
        if isinstance(e, ast.Constant):
            return self.lit(e.value)
        if isinstance(e, ast.Name) and e.id in self.p.settings:
            return self.py_kind(self.p.settings[e.id])
        if isinstance(e, ast.Tuple):
            return TUPLE([self.const_kind(x, fi) for x in e.elts])
        if isinstance(e, ast.UnaryOp):
            return self.const_kind(e.operand, fi)
        if isinstance(e, ast.BinOp):
            return arith(e.op, self.const_kind(e.left, fi), self.const_kind(e.right, fi))
        return OBJ

    @staticmethod
    def lit(v) -> Kind:
        if v is None:
            return NONE
        if isinstance(v, bool):
            return BOOL
        if isinstance(v, int):
            return INT
        if isinstance(v, float):
            return FLOAT
        if isinstance(v, str):
            return STR
        return OBJ

    def py_kind(self, v) -> Kind:
        if isinstance(v, (list, tuple)):
            return LIST(joins(self.py_kind(x) for x in v) if v else BOT)
        if isinstance(v, dict):
            return DICT(STR, joins(self.py_kind(x) for x in v.values()) if v else BOT)
        return self.lit(v)

    # ------------------------------------------------------------------ fixpoint
    def solve(self, max_rounds: int = 25) -> int:
        funcs = [fi for fi in self.p.all_functions() if fi.parent_func is None]
        for rnd in range(max_rounds):
            self.changed = False
            self.sinks = {}
            self.unresolved_calls = self.resolved_calls = 0
            for fi in funcs:
                self.analyse(fi)
            if not self.changed:
                return rnd + 1
        raise AnalysisError("numeric-kind fixpoint did not stabilise")

    def analyse(self, fi: FuncInfo) -> None:
        it = _KInterp(self, fi)
        env = {}
        a = fi.node.args
        for arg in a.posonlyargs + a.args + a.kwonlyargs + ([a.vararg] if a.vararg else []) + ([a.kwarg] if a.kwarg else []):
            env[arg.arg] = self.param_kinds.get((fi.qualname, arg.arg), OBJ)
        end, rets, raises = it.run_function(fi.node, env)
        rk = BOT
        for node, st in rets:
            rk = join(rk, it.ev(node.value, st) if node.value is not None else NONE)
        if end is not None:
            rk = join(rk, NONE)
        if fi.is_generator:
            rk = LIST(it.yield_kind if it.yield_kind else OBJ)
        self.update_ret(fi.qualname, rk)

    def update_ret(self, q: str, k: Kind) -> None:
        old = self.ret_kinds.get(q, BOT)
        new = join(old, k)
        if new != old:
            self.ret_kinds[q] = new
            self.changed = True

    def update_param(self, q: str, name: str, k: Kind, prov) -> None:
        old = self.param_kinds.get((q, name), BOT)
        new = join(old, k)
        if may_float(k):
            self.param_prov.setdefault((q, name), set()).add(prov)
        if new != old:
            self.param_kinds[(q, name)] = new
            self.changed = True

    def update_attr(self, cls: str, attr: str, k: Kind) -> None:
        old = self.attr_kinds.get((cls, attr), BOT)
        new = join(old, k)
        if new != old:
            self.attr_kinds[(cls, attr)] = new
            self.changed = True

    def attr_lookup(self, cls: str | None, attr: str) -> Kind | None:
        if cls is not None:
            for c in self.p.mro(cls):
                if (c, attr) in self.attr_kinds:
                    return self.attr_kinds[(c, attr)]
            return None
        ks = [k for (c, a), k in self.attr_kinds.items() if a == attr]
        return joins(ks) if ks else None

    def explain_float(self, fi: FuncInfo, expr: ast.AST, depth: int = 0, seen=None) -> list[str]:
        """Backward explanation: which parameter / call site brings the float in."""
        seen = seen or set()
        out = []
        for n in ast.walk(expr):
            if isinstance(n, ast.Name) and (fi.qualname, n.id) in self.param_prov and (fi.qualname, n.id) not in seen:
                seen.add((fi.qualname, n.id))
                for (caller, line, text) in sorted(self.param_prov[(fi.qualname, n.id)]):
                    out.append(f"{caller}:{line} passes `{text}` as {fi.qualname}({n.id})")
                    cfi = self.p.functions.get(caller)
                    if cfi is not None and depth < 4:
                        try:
                            e = ast.parse(text, mode="eval").body
                            out.extend(self.explain_float(cfi, e, depth + 1, seen))
                        except SyntaxError:
                            pass
        return out


class _KInterp(AbsInt):
    def __init__(self, eng: KindEngine, fi: FuncInfo):
        super().__init__()
        self.e = eng
        self.fi = fi
        self.nested: dict[str, ast.FunctionDef] = {}
        self.yield_kind: Kind = BOT
        self.in_nested: list[str] = []

    # state = dict name -> Kind
    def join(self, a, b):
        if a is b:
            return a
        out = dict(a)
        for k, v in b.items():
            out[k] = join(out.get(k, BOT), v)
        return out

    def equal(self, a, b):
        return a == b

    def copy(self, s):
        return dict(s)

    def on_nested_def(self, node, st):
        self.nested[node.name] = node
        return st

    # ------------------------------------------------------------------ expressions
    def ev(self, e: ast.AST | None, st: dict) -> Kind:
        k = self._ev(e, st)
        if isinstance(e, (ast.Name, ast.Attribute, ast.Call, ast.Subscript)):
            nk = self.e.node_kinds
            old = nk.get(id(e))
            nk[id(e)] = k if old is None else join(old, k)
        return k

    def _ev(self, e: ast.AST | None, st: dict) -> Kind:
        eng = self.e
        if e is None:
            return NONE
        if isinstance(e, ast.Constant):
            return eng.lit(e.value)
        if isinstance(e, ast.Name):
            if e.id in st:
                return st[e.id]
            if e.id in eng.p.settings:
                return eng.py_kind(eng.p.settings[e.id])
            mc = eng.module_consts.get((self.fi.file, e.id))
            if mc is not None:
                return self.ev(mc, {})
            if e.id in ("True", "False"):
                return BOOL
            return OBJ
        if isinstance(e, ast.BinOp):
            return arith(e.op, self.ev(e.left, st), self.ev(e.right, st))
        if isinstance(e, ast.UnaryOp):
            if isinstance(e.op, ast.Not):
                self.ev(e.operand, st)
                return BOOL
            return self.ev(e.operand, st)
        if isinstance(e, ast.BoolOp):
            return joins(self.ev(v, st) for v in e.values)
        if isinstance(e, ast.Compare):
            self.ev(e.left, st)
            for c in e.comparators:
                self.ev(c, st)
            return BOOL
        if isinstance(e, ast.IfExp):
            self.ev(e.test, st)
            return join(self.ev(e.body, st), self.ev(e.orelse, st))
        if isinstance(e, (ast.List, ast.Set)):
            return LIST(joins(self.ev(x, st) for x in e.elts) if e.elts else BOT)
        if isinstance(e, ast.Tuple):
            return TUPLE([self.ev(x, st) for x in e.elts])
        if isinstance(e, ast.Dict):
            kk = joins(self.ev(k, st) for k in e.keys if k is not None) if e.keys else BOT
            kv = joins(self.ev(v, st) for v in e.values) if e.values else BOT
            return DICT(kk, kv)
        if isinstance(e, (ast.ListComp, ast.SetComp, ast.GeneratorExp)):
            st2 = self.comp_env(e.generators, st)
            return LIST(self.ev(e.elt, st2))
        if isinstance(e, ast.DictComp):
            st2 = self.comp_env(e.generators, st)
            return DICT(self.ev(e.key, st2), self.ev(e.value, st2))
        if isinstance(e, ast.JoinedStr):
            for v in e.values:
                if isinstance(v, ast.FormattedValue):
                    k = self.ev(v.value, st)
                    self.fstring_sink(v, k)
            return STR
        if isinstance(e, ast.Subscript):
            base = self.ev(e.value, st)
            if isinstance(e.slice, ast.Slice):
                for x in (e.slice.lower, e.slice.upper, e.slice.step):
                    if x is not None:
                        self.ev(x, st)
                return base if base else OBJ
            idx = self.ev(e.slice, st)
            out = BOT
            for x in base:
                if isinstance(x, tuple) and x[0] == "tuple":
                    if isinstance(e.slice, ast.Constant) and isinstance(e.slice.value, int) and -len(x[1]) <= e.slice.value < len(x[1]):
                        out = join(out, x[1][e.slice.value])
                    else:
                        out = join(out, joins(x[1]))
                elif isinstance(x, tuple) and x[0] == "list":
                    out = join(out, x[1])
                elif isinstance(x, tuple) and x[0] == "dict":
                    out = join(out, x[2])
                elif x == "arg":
                    out = join(out, ARG)
                elif x == "str":
                    out = join(out, STR)
                elif x == "obj":
                    out = join(out, OBJ)
                # None / scalars are not subscriptable: such flows are infeasible (e.g. a None default replaced
                # before use) and contribute nothing
            return out
        if isinstance(e, ast.Attribute):
            return self.ev_attr(e, st)
        if isinstance(e, ast.Call):
            return self.ev_call(e, st)
        if isinstance(e, ast.Yield):
            k = self.ev(e.value, st) if e.value is not None else NONE
            self.yield_kind = join(self.yield_kind, k)
            return OBJ
        if isinstance(e, ast.Lambda):
            return OBJ
        if isinstance(e, ast.Starred):
            return self.ev(e.value, st)
        if isinstance(e, ast.NamedExpr):
            k = self.ev(e.value, st)
            if isinstance(e.target, ast.Name):
                st[e.target.id] = k
            return k
        return OBJ

    def comp_env(self, gens, st):
        st2 = dict(st)
        for g in gens:
            it = self.ev(g.iter, st2)
            self.bind_target(g.target, elem(it), st2)
            for c in g.ifs:
                self.ev(c, st2)
        return st2

    def bind_target(self, t: ast.expr, k: Kind, st: dict) -> None:
        if isinstance(t, ast.Name):
            st[t.id] = k
        elif isinstance(t, (ast.Tuple, ast.List)):
            for i, x in enumerate(t.elts):
                sub = BOT
                for a in k:
                    if isinstance(a, tuple) and a[0] == "tuple" and len(a[1]) == len(t.elts):
                        sub = join(sub, a[1][i])
                    elif isinstance(a, tuple) and a[0] == "list":
                        sub = join(sub, a[1])
                    elif a == "arg":
                        sub = join(sub, ARG)
                    else:
                        sub = join(sub, OBJ)
                self.bind_target(x, sub if sub else OBJ, st)
        elif isinstance(t, ast.Starred):
            self.bind_target(t.value, LIST(elem(k)), st)
        elif isinstance(t, ast.Attribute):
            self.attr_store(t, k, st, t)
        elif isinstance(t, ast.Subscript):
            self.subscript_store(t, k, st)

    def ev_attr(self, e: ast.Attribute, st: dict) -> Kind:
        eng = self.e
        ch = attr_chain(e)
        if ch == ["math", "inf"] or ch == ["math", "nan"] or ch == ["math", "pi"]:
            return FLOAT
        # enum member value
        if ch and len(ch) == 3 and ch[0] in eng.p.enums and ch[2] == "value":
            vals = dict(eng.p.enums[ch[0]])
            return eng.lit(vals.get(ch[1]))
        if ch and len(ch) == 2 and ch[0] in eng.p.enums:
            return INST(ch[0])
        # class attribute  Cls.attr
        if ch and len(ch) == 2 and ch[0] in eng.p.classes and ch[1] in eng.p.classes[ch[0]].class_attrs:
            return self.ev(eng.p.classes[ch[0]].class_attrs[ch[1]], {})
        base_k = self.ev(e.value, st)
        if e.attr in MESSAGE_INT_FIELDS:
            # inductive hypothesis: numeric message fields are int (or None)
            if e.attr == "time" and eng.float_ticks:
                return join(join(INT, FLOAT), NONE)
            return join(INT, NONE)
        if e.attr == "_messages" and "Message" in eng.p.classes:
            # representation invariant of the sequence classes: the event list holds Message objects
            return LIST(INST("Message"))
        if e.attr == "key" and "Key" in eng.p.enums:
            return join(INST("Key"), NONE)
        if e.attr == "message_type" and "MessageType" in eng.p.enums:
            return join(INST("MessageType"), NONE)
        if isinstance(e.value, ast.Name) and e.value.id == "self" and self.fi.cls:
            k = eng.attr_lookup(self.fi.cls, e.attr)
            if k is not None:
                return k
            m = eng.p.lookup_method(self.fi.cls, e.attr)
            if m is not None and m.is_property:
                return eng.ret_kinds.get(m.qualname, BOT)
            ca = None
            for c in eng.p.mro(self.fi.cls):
                if e.attr in eng.p.classes[c].class_attrs:
                    ca = eng.p.classes[c].class_attrs[e.attr]
                    break
            if ca is not None:
                return self.ev(ca, {})
            return OBJ
        insts = [x[1] for x in base_k if isinstance(x, tuple) and x[0] == "inst"]
        if insts and "obj" not in base_k and "arg" not in base_k:
            out = BOT
            for cn in insts:
                k = eng.attr_lookup(cn, e.attr)
                if k is not None:
                    out = join(out, k)
                    continue
                m = eng.p.lookup_method(cn, e.attr)
                if m is not None and m.is_property:
                    out = join(out, eng.ret_kinds.get(m.qualname, BOT))
                    ann = eng.ann_kind(m.node.returns)
                    if ann is not None and any(isinstance(a, tuple) and a[0] == "inst" for a in ann):
                        out = join(out, ann)
            return out
        k = eng.attr_lookup(None, e.attr)
        if k is not None:
            return k
        props = [m for m in eng.p.methods_named(e.attr) if m.is_property]
        if props:
            return joins(eng.ret_kinds.get(m.qualname, BOT) for m in props)
        return OBJ

    # ------------------------------------------------------------------ calls
    def ev_call(self, c: ast.Call, st: dict) -> Kind:
        eng = self.e
        recv, name = call_method(c)
        argk = [self.ev(a, st) for a in c.args]
        kwk = {k.arg: self.ev(k.value, st) for k in c.keywords}
        ch = attr_chain(c.func)
        if recv is None:
            return self.call_function(c, name, argk, kwk, st)
        # module-qualified functions
        if ch and ch[0] in ("math", "np", "numpy", "copy", "itertools", "json", "mido", "plt", "pyplot", "logging", "warnings"):
            return self.call_library(ch, c, argk, kwk)
        if ch and ch[-1] == "__class__" and ch[:-1] == ["self"] and self.fi.cls:
            return self.call_ctor(c, self.fi.cls, argk, kwk)
        rk = self.ev(recv, st)
        # container / scalar methods
        maybe_repo_obj = any((isinstance(x, tuple) and x[0] == "inst") or x == "obj" for x in rk)
        lib = None
        if not (maybe_repo_obj and eng.p.methods_named(name)):
            lib = self.call_builtin_method(c, name, recv, rk, argk, kwk, st)
            if lib is not None:
                return lib
        # repo methods
        targets: list[FuncInfo] = []
        if isinstance(recv, ast.Name) and recv.id == "self" and self.fi.cls:
            m = eng.p.lookup_method(self.fi.cls, name)
            if m is not None:
                targets = [m]
                # subclasses overriding
                for ci in eng.p.classes.values():
                    if self.fi.cls in eng.p.mro(ci.name)[1:] and name in ci.methods:
                        targets.append(ci.methods[name])
        elif ch and len(ch) == 2 and ch[0] in eng.p.classes:
            m = eng.p.lookup_method(ch[0], name)
            targets = [m] if m else []
        elif ch and ch[-1] == "__class__":
            pass
        else:
            insts = [x[1] for x in rk if isinstance(x, tuple) and x[0] == "inst"]
            if insts and "obj" not in rk and "arg" not in rk:
                for cn in insts:
                    m = eng.p.lookup_method(cn, name)
                    if m is not None and m not in targets:
                        targets.append(m)
                    for ci in eng.p.classes.values():
                        if cn in eng.p.mro(ci.name)[1:] and name in ci.methods and ci.methods[name] not in targets:
                            targets.append(ci.methods[name])
            else:
                targets = eng.p.methods_named(name)
                self._by_name = len(targets) > 1          # ambiguous: not recorded as call-graph edges
        if ch and ch[-1] == "__class__" and self.fi.cls:
            return self.call_ctor(c, self.fi.cls, argk, kwk)
        if not targets:
            eng.unresolved_calls += 1
            return OBJ
        eng.resolved_calls += 1
        out = BOT
        for t in targets:
            self.pass_args(c, t, argk, kwk, skip_self=not t.is_static)
            out = join(out, eng.ret_kinds.get(t.qualname, BOT))
        self._by_name = False
        return out

    def call_ctor(self, c: ast.Call, cls: str, argk, kwk) -> Kind:
        eng = self.e
        init = eng.p.lookup_method(cls, "__init__")
        if init is not None:
            self.pass_args(c, init, argk, kwk, skip_self=True)
        if cls in ("Message", "ReadOnlyMessage"):
            self.message_ctor_sink(c, argk, kwk, init)
        return INST(cls)

    def message_ctor_sink(self, c: ast.Call, argk, kwk, init: FuncInfo | None) -> None:
        if init is None or init.cls != "Message":
            return
        params = init.params[1:]
        texpr, tk = None, None
        if "time" in kwk:
            tk = kwk["time"]
            texpr = next(k.value for k in c.keywords if k.arg == "time")
        elif "time" in params and params.index("time") < len(c.args):
            i = params.index("time")
            tk, texpr = argk[i], c.args[i]
        if texpr is not None:
            self.record_sink("NK1", c, texpr, tk, "Message(time=...)")

    def pass_args(self, c: ast.Call, t: FuncInfo, argk, kwk, skip_self: bool) -> None:
        eng = self.e
        if not getattr(self, "_by_name", False):
            eng.edges.setdefault(self.fi.qualname, set()).add(t.qualname)
        params = t.params[1:] if (skip_self and t.cls and t.parent_func is None) else t.params
        for i, k in enumerate(argk):
            if i < len(params):
                eng.update_param(t.qualname, params[i], k, (self.fi.qualname, c.lineno, short(c.args[i], 80)))
        for kw in c.keywords:
            if kw.arg in params:
                eng.update_param(t.qualname, kw.arg, kwk[kw.arg], (self.fi.qualname, c.lineno, short(kw.value, 80)))

    def call_function(self, c: ast.Call, name: str, argk, kwk, st) -> Kind:
        eng = self.e
        a0 = argk[0] if argk else BOT
        if name in self.nested:
            return self.inline_nested(c, self.nested[name], argk, kwk, st)
        if name in eng.p.classes:
            return self.call_ctor(c, name, argk, kwk)
        if name in eng.p.module_funcs:
            t = eng.p.module_funcs[name]
            eng.resolved_calls += 1
            self.pass_args(c, t, argk, kwk, skip_self=False)
            return eng.ret_kinds.get(t.qualname, BOT)
        if name == "int":
            return INT
        if name == "float":
            return FLOAT
        if name == "round":
            return INT if len(c.args) == 1 and not c.keywords else (numeric_only(a0) or OBJ)
        if name in ("len", "ord", "hash", "id"):
            return INT
        if name in ("bool", "isinstance", "hasattr", "any", "all", "callable"):
            return BOOL
        if name in ("str", "repr", "format"):
            return STR
        if name == "abs":
            return numeric_only(a0) or OBJ
        if name in ("min", "max"):
            if len(argk) == 1:
                k = elem(a0)
            else:
                k = joins(argk)
            if "default" in kwk:
                k = join(k, kwk["default"])
            return k
        if name == "sum":
            return join(elem(a0), INT) if argk else INT
        if name == "range":
            return LIST(INT)
        if name == "enumerate":
            return LIST(TUPLE([INT, elem(a0)]))
        if name == "zip":
            return LIST(TUPLE([elem(k) for k in argk]))
        if name in ("list", "sorted", "reversed", "tuple", "set", "iter"):
            return LIST(elem(a0)) if argk else LIST(BOT)
        if name == "dict":
            return DICT(BOT, BOT) if not argk else a0
        if name == "next":
            k = elem(a0)
            if len(argk) > 1:
                k = join(k, argk[1])
            return k
        if name == "divmod":
            return TUPLE([numeric_only(joins(argk)), numeric_only(joins(argk))])
        if name in ("print", "open", "super", "getattr", "type", "iter", "vars", "property"):
            return OBJ
        if name == "pow":
            return arith(ast.Pow(), a0, argk[1] if len(argk) > 1 else INT)
        eng.unresolved_calls += 1
        return OBJ

    def call_library(self, ch, c, argk, kwk) -> Kind:
        mod, fn = ch[0], ch[-1]
        a0 = argk[0] if argk else BOT
        if mod == "math":
            if fn in ("floor", "ceil", "trunc", "gcd", "lcm", "factorial", "comb", "isqrt"):
                return INT
            if fn in ("isnan", "isinf", "isclose"):
                return BOOL
            return FLOAT
        if mod == "copy":
            return a0 if a0 else OBJ
        if mod in ("np", "numpy"):
            return OBJ
        if mod == "itertools":
            if fn == "product":
                return LIST(TUPLE([elem(elem(a0))])) if argk else LIST(OBJ)
            return LIST(OBJ)
        return OBJ

    def call_builtin_method(self, c, name, recv, rk, argk, kwk, st) -> Kind | None:
        """Methods of list/dict/str/float/int values; None if the call should be resolved against repo methods."""
        eng = self.e
        has_container = any(isinstance(x, tuple) and x[0] != "inst" for x in rk) or "arg" in rk or "str" in rk
        has_num = bool(numeric_only(rk) - {"arg"})
        a0 = argk[0] if argk else BOT
        repo_named = eng.p.methods_named(name)
        if name == "item" and not repo_named:
            # numpy scalar extraction (np.digitize(...).item(i)) -- an index, integer by numpy's contract
            return INT
        if name in ("is_integer",):
            return BOOL
        if not has_container and not has_num and repo_named:
            return None
        if name == "append":
            self.container_add(recv, a0, st)
            return NONE
        if name == "extend":
            self.container_add(recv, elem(a0), st)
            return NONE
        if name == "insert":
            self.container_add(recv, argk[1] if len(argk) > 1 else OBJ, st)
            return NONE
        if name in ("index", "count", "find", "rfind", "bit_length"):
            return INT
        if name in ("sort", "reverse", "clear", "remove", "update"):
            return NONE
        if name == "pop":
            out = BOT
            for x in rk:
                if isinstance(x, tuple) and x[0] == "dict":
                    out = join(out, x[2])
                    if len(argk) > 1:
                        out = join(out, argk[1])
                elif isinstance(x, tuple):
                    out = join(out, elem(frozenset([x])))
                elif x == "arg":
                    out = join(out, ARG)
                elif x == "obj":
                    out = join(out, OBJ)
            return out
        if name == "get":
            out = BOT
            for x in rk:
                if isinstance(x, tuple) and x[0] == "dict":
                    out = join(out, x[2])
                elif x == "obj":
                    out = join(out, OBJ)
            out = join(out, argk[1] if len(argk) > 1 else NONE)
            return out
        if name == "setdefault":
            if len(argk) > 1:
                self.dict_store(recv, argk[0], argk[1], st)
            out = BOT
            for x in self.ev(recv, st):
                if isinstance(x, tuple) and x[0] == "dict":
                    out = join(out, x[2])
                elif x == "obj":
                    out = join(out, OBJ)
            return out
        if name == "items":
            out = BOT
            for x in rk:
                if isinstance(x, tuple) and x[0] == "dict":
                    out = join(out, LIST(TUPLE([x[1], x[2]])))
            return out if out else LIST(TUPLE([OBJ, OBJ]))
        if name == "values":
            out = BOT
            for x in rk:
                if isinstance(x, tuple) and x[0] == "dict":
                    out = join(out, LIST(x[2]))
            return out if out else LIST(OBJ)
        if name == "keys":
            out = BOT
            for x in rk:
                if isinstance(x, tuple) and x[0] == "dict":
                    out = join(out, LIST(x[1]))
            return out if out else LIST(OBJ)
        if name == "copy" and has_container:
            return frozenset(x for x in rk if (isinstance(x, tuple) and x[0] != "inst") or x == "arg")
        if name in ("split", "rsplit", "splitlines"):
            return LIST(STR)
        if name in ("join", "replace", "strip", "lower", "upper", "format", "zfill", "lstrip", "rstrip"):
            return STR
        if name in ("startswith", "endswith", "isdigit"):
            return BOOL
        if repo_named:
            return None
        return OBJ

    def container_add(self, recv: ast.expr, k: Kind, st: dict) -> None:
        cur = self.ev(recv, st)
        lists = [x for x in cur if isinstance(x, tuple) and x[0] == "list"]
        new = join(cur - frozenset(lists), LIST(join(joins(x[1] for x in lists), k))) if (lists or not cur or cur == OBJ) else cur
        self.store_back(recv, new, st)

    def store_back(self, target: ast.expr, k: Kind, st: dict) -> None:
        if isinstance(target, ast.Name):
            st[target.id] = k
        elif isinstance(target, ast.Attribute) and isinstance(target.value, ast.Name) and target.value.id == "self" and self.fi.cls:
            self.e.update_attr(self.fi.cls, target.attr, k)
        elif isinstance(target, ast.Subscript):
            # d[k].append(x): weak update of the container's element kind
            self.subscript_store(target, k, st)

    def dict_store(self, recv: ast.expr, kk: Kind, kv: Kind, st: dict) -> None:
        cur = self.ev(recv, st)
        ds = [x for x in cur if isinstance(x, tuple) and x[0] == "dict"]
        if ds or not cur or cur == OBJ:
            okk = joins(x[1] for x in ds)
            okv = joins(x[2] for x in ds)
            new = join(cur - frozenset(ds) - (OBJ if ds else BOT), DICT(join(okk, kk), join(okv, kv)))
            self.store_back(recv, new, st)

    def subscript_store(self, t: ast.Subscript, k: Kind, st: dict) -> None:
        cur = self.ev(t.value, st)
        if isinstance(t.slice, ast.Slice):
            self.container_add(t.value, elem(k), st)
            return
        idx = self.ev(t.slice, st)
        if any(isinstance(x, tuple) and x[0] == "dict" for x in cur) or (isinstance(t.value, ast.Name) and cur in (OBJ, BOT)):
            if any(isinstance(x, tuple) and x[0] == "list" for x in cur):
                self.container_add(t.value, k, st)
            else:
                self.dict_store(t.value, idx, k, st)
        elif any(isinstance(x, tuple) and x[0] == "list" for x in cur):
            self.container_add(t.value, k, st)

    def inline_nested(self, c, fn: ast.FunctionDef, argk, kwk, st) -> Kind:
        if fn.name in self.in_nested:
            return OBJ
        self.in_nested.append(fn.name)
        params = [a.arg for a in fn.args.args]
        for i, k in enumerate(argk):
            if i < len(params):
                st[params[i]] = join(st.get(params[i], BOT), k) if False else k
        from ..absint import _Frame
        fr = _Frame()
        self._frames.append(fr)
        end = self.block(fn.body, st)
        self._frames.pop()
        rk = BOT
        out_state = end
        for node, s2 in fr.returns:
            rk = join(rk, self.ev(node.value, s2) if node.value is not None else NONE)
            out_state = self.jn(out_state, s2)
        # exceptions raised inside propagate to the caller's frame
        self._frames[-1].raises.extend(fr.raises)
        if out_state is not None:
            st.clear()
            st.update(out_state)
        self.in_nested.pop()
        return join(rk, NONE) if end is not None else (rk or NONE)

    # ------------------------------------------------------------------ statements
    def stmt(self, s: ast.stmt, st: dict):
        if isinstance(s, ast.Expr):
            self.ev(s.value, st)
            return st
        if isinstance(s, ast.Assign):
            k = self.ev(s.value, st)
            for t in s.targets:
                self.assign(t, k, st, s)
            return st
        if isinstance(s, ast.AnnAssign):
            if s.value is not None:
                k = self.ev(s.value, st)
                self.assign(s.target, k, st, s)
            return st
        if isinstance(s, ast.AugAssign):
            cur = self.ev(s.target, st)
            k = arith(s.op, cur, self.ev(s.value, st))
            self.assign(s.target, k, st, s, aug=True)
            return st
        if isinstance(s, ast.Assert):
            self.ev(s.test, st)
            return st
        return st

    def assign(self, t: ast.expr, k: Kind, st: dict, stmt: ast.stmt, aug: bool = False) -> None:
        if isinstance(t, ast.Name):
            st[t.id] = k
        elif isinstance(t, ast.Attribute):
            self.attr_store(t, k, st, stmt)
        elif isinstance(t, ast.Subscript):
            self.subscript_store(t, k, st)
        else:
            self.bind_target(t, k, st)

    def attr_store(self, t: ast.Attribute, k: Kind, st: dict, stmt: ast.AST) -> None:
        if isinstance(t.value, ast.Name) and t.value.id == "self" and self.fi.cls:
            self.e.update_attr(self.fi.cls, t.attr, k)
            if t.attr == "time" and self.fi.cls in ("Message",):
                return   # Message.__init__ stores its parameter; the sinks are the constructor call sites
        if t.attr == "time":
            value = getattr(stmt, "value", None)
            self.record_sink("NK1", stmt, value if value is not None else t, k, f"{short(t)} = ...")

    def record_sink(self, rule: str, node: ast.AST, expr: ast.AST, k: Kind, what: str) -> None:
        key = (rule, self.fi.qualname, getattr(node, "lineno", 0), getattr(node, "col_offset", 0), what)
        old = self.e.sinks.get(key)
        if old is not None:
            k = join(old.kind, k)
        self.e.sinks[key] = Sink(rule, self.fi.qualname if not self.in_nested else f"{self.fi.qualname}.{self.in_nested[-1]}",
                                 self.fi.file, node, expr, k, what)

    def fstring_sink(self, v: ast.FormattedValue, k: Kind) -> None:
        spec = ""
        if v.format_spec is not None:
            spec = "".join(x.value for x in v.format_spec.values if isinstance(x, ast.Constant))
        if spec and spec.lstrip("0").isdigit() or spec in ("d",) or (spec and spec.isdigit()):
            prefix = "?"
            js = getattr(v, "_parent", None)
            if isinstance(js, ast.JoinedStr):
                for x in js.values:
                    if x is v:
                        break
                    if isinstance(x, ast.FormattedValue):
                        chx = attr_chain(x.value)
                        if chx and len(chx) == 3 and chx[0] in self.e.p.enums and chx[2] == "value":
                            prefix = chx[1]
            self.record_sink("NK2", v, v.value, k, f"{prefix} token field {{{short(v.value)}:{spec}}}")

    def for_iter(self, node, st):
        st["$it%d" % node.lineno] = self.ev(node.iter, st)
        return st

    def for_bind(self, node, st):
        self.bind_target(node.target, elem(st.get("$it%d" % node.lineno, OBJ)), st)
        return st

    def cond(self, test, st):
        self.ev(test, st)
        return dict(st), dict(st)

    def with_enter(self, node, st):
        for it in node.items:
            self.ev(it.context_expr, st)
            if it.optional_vars is not None:
                self.bind_target(it.optional_vars, OBJ, st)
        return st
