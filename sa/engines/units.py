"""UNIT -- dimension analysis (ticks, quarters, beats, whole notes, file ticks) of arithmetic and comparisons.

Units are Laurent monomials over the base units; leaves are seeded from a small table confirmed by reading the code
(PPQN: tick/quarter, `.time`: tick, *numerator*: beat, *denominator*: beat/whole, get_sequence_duration_relation():
quarter, get_sequence_duration(): tick, MidiFile.PPQN: filetick/quarter).  A numeric literal is dimensionless, except
the literal 4 inside a multiplicative chain that also contains a factor measured per whole note: that 4 is the number
of quarters in a whole note (quarter/whole).  Only operations whose operands are both determined are judged.
"""
from __future__ import annotations

import ast

from ..astutil import attr_chain, call_method, short, src
from ..linear import Sym
from ..model import FuncInfo, Program, walk_local

TICK, QUARTER, BEAT, WHOLE, FTICK = (Sym.atom(x) for x in ("tick", "quarter", "beat", "whole", "filetick"))
ONE = Sym.const(1)


def inv(u: Sym) -> Sym:
    return u.inverse()


def show(u: Sym | None) -> str:
    if u is None:
        return "?"
    if u == ONE:
        return "1"
    (m, c), = u.terms.items()
    num = "*".join(x if e == 1 else f"{x}^{e}" for x, e in m if e > 0) or "1"
    den = "*".join(x if e == -1 else f"{x}^{-e}" for x, e in m if e < 0)
    return num + ("/" + den if den else "")


class UnitAnalysis:
    def __init__(self, program: Program, fi: FuncInfo, seeds: dict[str, Sym] | None = None, attr_seeds: dict[str, Sym] | None = None,
                 call_seeds: dict[str, Sym] | None = None):
        self.p = program
        self.fi = fi
        self.name_seeds = dict(seeds or {})
        self.attr_seeds = {"time": TICK}
        self.attr_seeds.update(attr_seeds or {})
        self.call_seeds = {"get_sequence_duration_relation": QUARTER, "get_sequence_duration": TICK}
        self.call_seeds.update(call_seeds or {})
        self.env: dict[str, Sym | None] = {}
        self.mismatches: list[tuple[ast.AST, Sym, Sym, str]] = []
        self.judged: list[tuple[ast.AST, Sym]] = []
        self._build_env()

    def _build_env(self) -> None:
        defs: dict[str, list[ast.AST]] = {}
        for n in walk_local(self.fi.node):
            if isinstance(n, ast.Assign) and len(n.targets) == 1 and isinstance(n.targets[0], ast.Name):
                defs.setdefault(n.targets[0].id, []).append(n.value)
            elif isinstance(n, ast.AugAssign) and isinstance(n.target, ast.Name) and isinstance(n.op, (ast.Add, ast.Sub)):
                defs.setdefault(n.target.id, []).append(n.value)
        for _ in range(4):
            for name, vals in defs.items():
                us = [self.unit(v, record=False) for v in vals]
                known = [u for u in us if u is not None and u != ONE]
                if known and all(u == known[0] for u in known):
                    self.env[name] = known[0]

    def ident_unit(self, ident: str, chain: list[str] | None) -> Sym | None:
        low = ident.lower()
        if ident in self.name_seeds:
            return self.name_seeds[ident]
        if low == "ppqn":
            if chain and chain[-1] == "PPQN" and len(chain) >= 2 and chain[0] == "self" and self.fi.cls == "MidiFile":
                return FTICK * inv(QUARTER)
            return TICK * inv(QUARTER)
        if "numerator" in low:
            return BEAT
        if "denominator" in low:
            return BEAT * inv(WHOLE)
        return None

    def factors(self, e: ast.AST, exp: int, out: list) -> None:
        if isinstance(e, ast.BinOp) and isinstance(e.op, ast.Mult):
            self.factors(e.left, exp, out)
            self.factors(e.right, exp, out)
        elif isinstance(e, ast.BinOp) and isinstance(e.op, ast.Div):
            self.factors(e.left, exp, out)
            self.factors(e.right, -exp, out)
        else:
            out.append((e, exp))

    def unit(self, e: ast.AST, record: bool = True) -> Sym | None:
        if isinstance(e, ast.Constant):
            if isinstance(e.value, (int, float)) and not isinstance(e.value, bool):
                return ONE
            return None
        if isinstance(e, ast.Name):
            if e.id in self.env:
                return self.env[e.id]
            u = self.ident_unit(e.id, [e.id])
            return u
        if isinstance(e, ast.Attribute):
            ch = attr_chain(e)
            u = self.ident_unit(e.attr, ch)
            if u is not None:
                return u
            if e.attr in self.attr_seeds:
                return self.attr_seeds[e.attr]
            return None
        if isinstance(e, ast.UnaryOp) and isinstance(e.op, (ast.USub, ast.UAdd)):
            return self.unit(e.operand, record)
        if isinstance(e, ast.Call):
            recv, name = call_method(e)
            if recv is None and name in ("int", "round", "float", "abs") and e.args:
                return self.unit(e.args[0], record)
            if recv is None and name in ("min", "max") and e.args:
                us = [self.unit(a, record) for a in e.args]
                known = [u for u in us if u is not None]
                return known[0] if known and all(u == known[0] for u in known) else None
            if recv is None and name == "sum" and e.args and isinstance(e.args[0], (ast.GeneratorExp, ast.ListComp)):
                return self.unit(e.args[0].elt, record)       # a sum has the unit of its terms
            if name in self.call_seeds:
                return self.call_seeds[name]
            return None
        if isinstance(e, ast.BinOp):
            if isinstance(e.op, (ast.Mult, ast.Div)):
                fs: list = []
                self.factors(e, 1, fs)
                units = []
                has_whole = False
                for node, exp in fs:
                    if isinstance(node, ast.Constant) and node.value == 4 and not isinstance(node.value, bool):
                        units.append(("four", exp))
                        continue
                    u = self.unit(node, record)
                    units.append((u, exp))
                    if u is not None and "whole" in u.atoms():
                        has_whole = True
                total = ONE
                for u, exp in units:
                    if u == "four":
                        u = QUARTER * inv(WHOLE) if has_whole else ONE
                    if u is None:
                        return None
                    total = total * (u if exp > 0 else inv(u))
                return total
            if isinstance(e.op, (ast.Add, ast.Sub)):
                a, b = self.unit(e.left, record), self.unit(e.right, record)
                if a is not None and b is not None and a != ONE and b != ONE:
                    if record:
                        self.judged.append((e, a))
                    if a != b and record:
                        self.mismatches.append((e, a, b, type(e.op).__name__))
                    return a
                return a if (a is not None and a != ONE) else b
            if isinstance(e.op, (ast.FloorDiv,)):
                a, b = self.unit(e.left, record), self.unit(e.right, record)
                if a is None or b is None:
                    return None
                return a * inv(b)
            if isinstance(e.op, ast.Mod):
                return self.unit(e.left, record)
            return None
        if isinstance(e, ast.IfExp):
            a, b = self.unit(e.body, record), self.unit(e.orelse, record)
            return a if a == b else None
        return None

    def judge_compare(self, c: ast.Compare) -> tuple[Sym | None, Sym | None]:
        a = self.unit(c.left)
        b = self.unit(c.comparators[0])
        return a, b


def infer_param_unit(program: Program, fi: FuncInfo, param: str) -> Sym | None:
    """Unit of a parameter from how the function uses it: compared with / subtracted from values of a known unit."""
    ua = UnitAnalysis(program, fi)
    found = []
    for n in walk_local(fi.node):
        pairs = []
        if isinstance(n, ast.Compare) and len(n.ops) == 1:
            pairs.append((n.left, n.comparators[0]))
        elif isinstance(n, ast.BinOp) and isinstance(n.op, (ast.Add, ast.Sub)):
            pairs.append((n.left, n.right))
        for a, b in pairs:
            for x, y in ((a, b), (b, a)):
                if isinstance(x, ast.Name) and x.id == param:
                    u = ua.unit(y, record=False)
                    if u is not None and u != ONE:
                        found.append(u)
    if found and all(u == found[0] for u in found):
        return found[0]
    return None
