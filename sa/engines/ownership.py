def check_no_internal_escape(ctx, rule):
    pass
