"""OWN -- ownership / freshness analysis (properties C16, C04-TS8, C08/C09 "source not written").

Two-point taint per value: F (holds only objects created inside the function: nothing the caller, `self` or a
parameter owns is reachable from it) and B (may reference an object owned elsewhere).  Flow-insensitive over the
locals of a function (a local is B if any definition or mutation anywhere in the function may put a B value into
it: sound without alias analysis for the aliasing patterns of this code base), inter-procedural through summaries
computed to a least fixpoint:
    ret(f)      in {FRESH, DERIVED}   FRESH: the result is F even when self and all parameters are B
    retains(C)  set of __init__ parameters whose (non-scalar) value ends up stored in the new object
Scalars (ints, strings, None, enum members -- decided by the numeric-kind engine's per-node kinds and the scalar
field table of Message) are F: sharing an immutable value cannot make two objects interfere.
"""
from __future__ import annotations

import ast

from ..astutil import attr_chain, call_method, short, src
from ..model import Program, FuncInfo, AnalysisError, walk_local
from ..report import Ctx
from .kinds import KindEngine, Kind

PURE_METHODS = {"index", "get", "count", "keys", "values", "items", "copy", "sort", "reverse", "pop", "remove", "clear",
                "is_integer", "startswith", "endswith", "split", "join", "format", "info", "debug", "warning", "error"}
SCALAR_BUILTINS = {"len", "int", "float", "str", "bool", "round", "abs", "isinstance", "hasattr", "any", "all", "sum",
                   "ord", "repr", "print", "range", "hash", "id", "type", "divmod", "callable"}
PASS_BUILTINS = {"list", "sorted", "reversed", "enumerate", "zip", "next", "iter", "tuple", "set", "dict", "min", "max",
                 "filter", "map", "getattr"}
SCALAR_ATOMS = {"int", "float", "bool", "str", "none", "arg"}


OPAQUE = "arguments passed by ** expansion (not modelled)"


class OwnershipEngine:
    def __init__(self, program: Program, kinds: KindEngine | None = None):
        self.p = program
        if kinds is None:
            kinds = KindEngine(program)
            kinds.solve()
        self.k = kinds
        msg = program.cls("Message")
        init = msg.methods.get("__init__")
        if init is None:
            raise AnalysisError("Message.__init__ not found")
        self.msg_fields = []
        for n in init.node.body:
            if isinstance(n, ast.Assign) and len(n.targets) == 1:
                ch = attr_chain(n.targets[0])
                if ch and len(ch) == 2 and ch[0] == "self" and ch[1] not in self.msg_fields:
                    self.msg_fields.append(ch[1])
        self.ret: dict[str, str] = {}
        self.retains: dict[str, set[str]] = {}
        self.b_locals: dict[str, set[str]] = {}
        self.why: dict[tuple[str, str], str] = {}
        self._solve()

    # ------------------------------------------------------------------------------------------
    def scalar_kind(self, k: Kind | None) -> bool:
        if not k:
            return False
        for x in k:
            if isinstance(x, tuple):
                if x[0] == "inst" and x[1] in self.p.enums:
                    continue
                return False
            if x not in SCALAR_ATOMS:
                return False
        return True

    def node_scalar(self, e: ast.AST) -> bool:
        return self.scalar_kind(self.k.node_kinds.get(id(e)))

    def _solve(self) -> None:
        funcs = [fi for fi in self.p.all_functions() if fi.parent_func is None]
        for fi in funcs:
            self.ret[fi.qualname] = "FRESH"
        for ci in self.p.classes.values():
            self.retains[ci.name] = set()
        for rnd in range(30):
            changed = False
            for fi in funcs:
                an = _FuncTaint(self, fi)
                an.run()
                self.b_locals[fi.qualname] = an.B
                r = "DERIVED" if an.ret_b else "FRESH"
                if r != self.ret[fi.qualname]:
                    if r == "DERIVED":
                        self.ret[fi.qualname] = r
                        changed = True
                if an.ret_why:
                    self.why[(fi.qualname, "ret")] = an.ret_why
                if fi.name == "__init__" and fi.cls:
                    if not an.retained <= self.retains[fi.cls]:
                        self.retains[fi.cls] |= an.retained
                        changed = True
            if not changed:
                self.rounds = rnd + 1
                return
        raise AnalysisError("ownership fixpoint did not stabilise")

    def ctor_retains(self, cls: str) -> tuple[FuncInfo | None, set[str]]:
        init = self.p.lookup_method(cls, "__init__")
        if init is None:
            return None, set()
        return init, self.retains.get(init.cls, set())

    def explain(self, qualname: str, depth: int = 0, seen=None) -> list[str]:
        seen = seen or set()
        if qualname in seen or depth > 5:
            return []
        seen.add(qualname)
        w = self.why.get((qualname, "ret"))
        return [f"{qualname}: {w}"] if w else []


class _FuncTaint:
    def __init__(self, eng: OwnershipEngine, fi: FuncInfo):
        self.e = eng
        self.fi = fi
        self.B: set[str] = set()
        self.ret_b = False
        self.ret_why = ""
        self.retained: set[str] = set()
        a = fi.node.args
        self.params = [x.arg for x in a.posonlyargs + a.args + a.kwonlyargs] + ([a.vararg.arg] if a.vararg else []) + ([a.kwarg.arg] if a.kwarg else [])
        self.note: dict[str, str] = {}
        self.overrides: list[dict] = []
        from ..webs import compute_webs
        self.web = compute_webs(fi.node)          # id(Name node) -> def-use web name (flow sensitivity for locals)

    def vn(self, n: ast.Name) -> str:
        return self.web.get(id(n), n.id)

    def run(self) -> None:
        for p in self.params:
            if self.e.scalar_kind(self.e.k.param_kinds.get((self.fi.qualname, p))) or self.scalar_annotation(p):
                continue
            self.B.add(p)
            self.note[p] = f"parameter `{p}`"
        body = list(walk_local(self.fi.node))
        # nested closures share locals
        for n in list(body):
            if isinstance(n, ast.FunctionDef):
                body.extend(walk_local(n))
        for _ in range(40):
            before = len(self.B)
            for n in body:
                self.visit(n)
            if len(self.B) == before:
                break
        # returns
        for n in body:
            if isinstance(n, ast.Return) and n.value is not None:
                t, why = self.T(n.value)
                if t:
                    self.ret_b = True
                    self.ret_why = self.ret_why or f"returns `{short(n.value, 60)}` ({why})"
            elif isinstance(n, (ast.Yield, ast.YieldFrom)) and n.value is not None:
                t, why = self.T(n.value)
                if t:
                    self.ret_b = True
                    self.ret_why = self.ret_why or f"yields `{short(n.value, 60)}` ({why})"
        # retention (for __init__): parameters stored into self / handed to super().__init__
        if self.fi.name == "__init__":
            for n in body:
                if isinstance(n, (ast.Assign, ast.AnnAssign)) and getattr(n, "value", None) is not None:
                    tg = n.targets if isinstance(n, ast.Assign) else [n.target]
                    if any((attr_chain(t) or [""])[0] == "self" and len(attr_chain(t) or []) >= 2 for t in tg):
                        self.retained |= self.param_sources(n.value)
                elif isinstance(n, ast.Call):
                    recv, name = call_method(n)
                    ch = attr_chain(n.func) or []
                    root = ch[0] if ch else None
                    is_super = isinstance(recv, ast.Call) and isinstance(recv.func, ast.Name) and recv.func.id == "super"
                    if is_super and name == "__init__" and self.fi.cls:
                        for b in self.e.p.classes[self.fi.cls].bases:
                            binit, bret = self.e.ctor_retains(b)
                            if binit is None:
                                continue
                            bparams = binit.params[1:]
                            for i, a in enumerate(n.args):
                                if i < len(bparams) and bparams[i] in bret:
                                    self.retained |= self.param_sources(a)
                            for kw in n.keywords:
                                if kw.arg in bret:
                                    self.retained |= self.param_sources(kw.value)
                    elif root == "self" and len(ch) >= 3 and name not in PURE_METHODS:
                        # self.attr.method(arg): e.g. self._messages.extend(messages)
                        for a in list(n.args) + [k.value for k in n.keywords]:
                            self.retained |= self.param_sources(a)

    def scalar_annotation(self, p: str) -> bool:
        a = self.fi.node.args
        for arg in a.posonlyargs + a.args + a.kwonlyargs:
            if arg.arg == p and arg.annotation is not None:
                names = {n.id for n in ast.walk(arg.annotation) if isinstance(n, ast.Name)}
                consts = {n.value for n in ast.walk(arg.annotation) if isinstance(n, ast.Constant)}
                if isinstance(arg.annotation, ast.Constant) and isinstance(arg.annotation.value, str):
                    try:
                        tree = ast.parse(arg.annotation.value, mode="eval")
                        names = {n.id for n in ast.walk(tree) if isinstance(n, ast.Name)}
                    except SyntaxError:
                        return False
                return bool(names) and names <= {"str", "Path", "int", "float", "bool", "None"} | set(self.e.p.enums)
        return False

    def param_sources(self, e: ast.AST) -> set[str]:
        """Parameters whose non-scalar value may be reachable from expression e."""
        out = set()
        t, _ = self.T(e)
        if not t:
            return out
        for n in ast.walk(e):
            if isinstance(n, ast.Name) and n.id in self.params and n.id != self.params[0 if self.fi.cls else -1 if False else 0]:
                if not self.e.node_scalar(n):
                    out.add(n.id)
        if self.fi.cls and self.params:
            out.discard(self.params[0])
        return out

    # ------------------------------------------------------------------ taint of an expression: (is_B, why)
    def T(self, e: ast.AST | None) -> tuple[bool, str]:
        eng = self.e
        if e is None or isinstance(e, (ast.Constant, ast.Lambda, ast.JoinedStr, ast.Compare)):
            return False, ""
        if isinstance(e, (ast.Name, ast.Attribute, ast.Subscript, ast.Call)) and eng.node_scalar(e):
            return False, ""
        if isinstance(e, ast.Name):
            for ov in reversed(self.overrides):
                if e.id in ov:
                    return ov[e.id]
            v = self.vn(e)
            if v in self.B:
                return True, self.note.get(v, f"`{e.id}`")
            return False, ""
        if isinstance(e, ast.Attribute):
            ch = attr_chain(e)
            if ch and ch[0] in eng.p.enums:
                return False, ""
            if e.attr in eng.msg_fields:
                return False, ""        # scalar field of a message (OWN3 checks that they stay scalar)
            if ch and ch[0] in eng.p.classes and len(ch) == 2:
                return False, ""        # class attribute / enum
            t, why = self.T(e.value)
            return t, (f"{short(e, 50)} of {why}" if t else "")
        if isinstance(e, ast.Subscript):
            return self.T(e.value)
        if isinstance(e, ast.Starred):
            return self.T(e.value)
        if isinstance(e, (ast.List, ast.Tuple, ast.Set)):
            return self.any_T(e.elts)
        if isinstance(e, ast.Dict):
            return self.any_T([x for x in list(e.keys) + list(e.values) if x is not None])
        if isinstance(e, (ast.BinOp,)):
            return self.any_T([e.left, e.right])
        if isinstance(e, ast.BoolOp):
            return self.any_T(e.values)
        if isinstance(e, ast.UnaryOp):
            return self.T(e.operand)
        if isinstance(e, ast.IfExp):
            return self.any_T([e.body, e.orelse])
        if isinstance(e, (ast.ListComp, ast.SetComp, ast.GeneratorExp)):
            self.overrides.append(self.bind_comp(e.generators))
            try:
                return self.T(e.elt)
            finally:
                self.overrides.pop()
        if isinstance(e, ast.DictComp):
            self.overrides.append(self.bind_comp(e.generators))
            try:
                return self.any_T([e.key, e.value])
            finally:
                self.overrides.pop()
        if isinstance(e, ast.NamedExpr):
            return self.T(e.value)
        if isinstance(e, (ast.Yield, ast.Await)):
            return True, "value sent into the generator"
        if isinstance(e, ast.Call):
            return self.T_call(e)
        return True, f"unmodelled expression {type(e).__name__}"

    def any_T(self, es) -> tuple[bool, str]:
        for x in es:
            t, why = self.T(x)
            if t:
                return True, why
        return False, ""

    def bind_comp(self, gens) -> dict:
        """Comprehension variables live in their own scope: returned as an override map, never as function locals."""
        ov: dict = {}
        self.overrides.append(ov)
        try:
            for g in gens:
                t, why = self.T(g.iter)
                for x in ast.walk(g.target):
                    if isinstance(x, ast.Name):
                        ov[x.id] = (bool(t) and not self.e.node_scalar(x), f"element of {why}" if t else "")
        finally:
            self.overrides.pop()
        return ov

    def mark(self, name: str, why: str) -> None:
        if name not in self.B:
            self.B.add(name)
            self.note[name] = why

    def recv_classes(self, recv: ast.AST) -> list[str] | None:
        k = self.e.k.node_kinds.get(id(recv))
        if not k:
            return None
        insts = [x[1] for x in k if isinstance(x, tuple) and x[0] == "inst"]
        if insts and "obj" not in k and "arg" not in k:
            return insts
        return None

    def T_call(self, c: ast.Call) -> tuple[bool, str]:
        eng = self.e
        recv, name = call_method(c)
        args = list(c.args) + [k.value for k in c.keywords]
        ch = attr_chain(c.func)
        if recv is None:
            if name in SCALAR_BUILTINS:
                return False, ""
            if name in PASS_BUILTINS:
                return self.any_T(args)
            if name in eng.p.classes:
                return self.T_ctor(c, name)
            if name in eng.p.module_funcs:
                if eng.ret[name] == "FRESH":
                    return False, ""
                eng.__dict__.setdefault("dep", {}).setdefault(self.fi.qualname, set()).add(name)
                t, why = self.any_T(args)
                return t, (f"{name}() derives its result from {why}" if t else "")
            if name == "super":
                return True, "super()"
            nested = next((n for n in walk_local(self.fi.node) if isinstance(n, ast.FunctionDef) and n.name == name), None)
            if nested is not None:
                return False, ""
            return self.any_T(args)
        if ch and ch[0] == "copy" and len(ch) == 2:
            if ch[1] == "deepcopy":
                return False, ""
            return self.any_T(args)     # copy.copy: new container, same elements
        if ch and ch[0] in ("math", "np", "numpy", "itertools", "json", "mido", "plt"):
            if ch[0] == "itertools":
                return self.any_T(args)
            return False, ""
        if ch and ch[-1] == "__class__" and self.fi.cls:
            return self.T_ctor(c, self.fi.cls)
        if ch and len(ch) == 2 and ch[0] in eng.p.classes:
            m = eng.p.lookup_method(ch[0], name)
            if m is not None:
                if eng.ret[m.qualname] == "FRESH":
                    return False, ""
                eng.__dict__.setdefault("dep", {}).setdefault(self.fi.qualname, set()).add(m.qualname)
                t, why = self.any_T(args)
                return t, (f"{m.qualname}() derives its result from {why}" if t else "")
        # method call on an object
        classes = self.recv_classes(recv)
        rk = self.e.k.node_kinds.get(id(recv)) or ()
        is_container = any(isinstance(x, tuple) and x[0] in ("list", "dict", "tuple", "set") for x in rk) and not any(isinstance(x, tuple) and x[0] == "inst" for x in rk)
        if is_container and name in ("copy", "get", "pop", "items", "values", "keys", "setdefault", "__getitem__"):
            # builtin container: `.copy()` is shallow -- a new list holding the very same elements
            return self.any_T([recv] + args)
        targets = []
        if isinstance(recv, ast.Name) and recv.id == "self" and self.fi.cls:
            classes = [self.fi.cls] + [ci.name for ci in eng.p.classes.values() if self.fi.cls in eng.p.mro(ci.name)[1:]]
        if classes is not None:
            for cn in classes:
                m = eng.p.lookup_method(cn, name)
                if m is not None and m not in targets:
                    targets.append(m)
                for ci in eng.p.classes.values():
                    if cn in eng.p.mro(ci.name)[1:] and name in ci.methods and ci.methods[name] not in targets:
                        targets.append(ci.methods[name])
        else:
            targets = eng.p.methods_named(name)
        if targets:
            derived = [m for m in targets if eng.ret[m.qualname] == "DERIVED"]
            if not derived:
                return False, ""
            eng.__dict__.setdefault("dep", {}).setdefault(self.fi.qualname, set()).update(m.qualname for m in derived)
            t, why = self.any_T([recv] + args)
            return t, (f"{derived[0].qualname}() may return objects owned by its receiver/arguments, here {why}" if t else "")
        if name in ("get", "pop", "copy", "items", "values", "keys", "setdefault", "__getitem__"):
            return self.any_T([recv] + args)
        if name in ("index", "count", "is_integer", "item", "split", "join", "format", "replace", "strip", "startswith",
                    "endswith", "lower", "upper", "append", "extend", "insert", "sort", "remove", "clear", "reverse"):
            return False, ""
        return self.any_T([recv] + args)

    def T_ctor(self, c: ast.Call, cls: str) -> tuple[bool, str]:
        init, retained = self.e.ctor_retains(cls)
        if init is None:
            return self.any_T(list(c.args) + [k.value for k in c.keywords])
        params = init.params[1:]
        for i, a in enumerate(c.args):
            if isinstance(a, ast.Starred):
                t, why = self.T(a)
                if t:
                    return True, why
                continue
            if i < len(params) and params[i] in retained:
                t, why = self.T(a)
                if t:
                    return True, f"{cls}({params[i]}=...) keeps {why}"
        for kw in c.keywords:
            if kw.arg is None or kw.arg in retained:
                t, why = self.T(kw.value)
                if t:
                    if kw.arg is None:
                        # `Cls(**mapping)`: which value goes into which field is decided at run time -- outside the model
                        return True, f"{OPAQUE}: {cls}(**...) built from {why}"
                    return True, f"{cls}({kw.arg}=...) keeps {why}"
        return False, ""

    # ------------------------------------------------------------------ flows into locals
    def root_name(self, e: ast.AST) -> str | None:
        while isinstance(e, (ast.Attribute, ast.Subscript)):
            e = e.value
        return self.vn(e) if isinstance(e, ast.Name) else None

    def flow_into(self, target: ast.AST, value: ast.AST | None, vt: tuple[bool, str] | None = None) -> None:
        t, why = vt if vt is not None else self.T(value)
        if not t:
            return
        if isinstance(target, ast.Name):
            if not self.e.node_scalar(target):
                self.mark(self.vn(target), why)
        elif isinstance(target, (ast.Tuple, ast.List)):
            for x in target.elts:
                self.flow_into(x, None, (t, why))
        elif isinstance(target, ast.Starred):
            self.flow_into(target.value, None, (t, why))
        elif isinstance(target, (ast.Attribute, ast.Subscript)):
            r = self.root_name(target)
            if r is not None and r.split("#")[0] != "self":
                self.mark(r, f"stores {why}")

    def visit(self, n: ast.AST) -> None:
        if isinstance(n, ast.Assign):
            vt = self.T(n.value)
            for t in n.targets:
                self.flow_into(t, None, vt)
        elif isinstance(n, ast.AnnAssign) and n.value is not None:
            self.flow_into(n.target, n.value)
        elif isinstance(n, ast.AugAssign):
            self.flow_into(n.target, n.value)
        elif isinstance(n, ast.For):
            self.flow_into(n.target, n.iter)
        elif isinstance(n, ast.With):
            for it in n.items:
                if it.optional_vars is not None:
                    self.flow_into(it.optional_vars, it.context_expr)
        elif isinstance(n, ast.NamedExpr):
            self.flow_into(n.target, n.value)
        elif isinstance(n, ast.Call):
            recv, name = call_method(n)
            if recv is not None and name not in PURE_METHODS:
                r = self.root_name(recv)
                if r is not None and r != "self" and r not in self.B:
                    args = list(n.args) + [k.value for k in n.keywords]
                    t, why = self.any_T(args)
                    if t:
                        self.mark(r, f"receives {why} through .{name}(...)")
            # a function that mutates a list parameter with another argument (binary_insort(collection, message))
            if recv is None and name in self.e.p.module_funcs and len(n.args) >= 2:
                r = self.root_name(n.args[0])
                if r is not None and r != "self" and r not in self.B:
                    t, why = self.any_T(n.args[1:])
                    if t:
                        self.mark(r, f"receives {why} through {name}(...)")


# ================================================================================================
ROUTES = ["Message.copy", "AbstractSequence.copy", "Sequence.copy", "Bar.copy", "Track.copy", "Composition.copy",
          "RelativeSequence.split", "Sequence.split", "Sequence.sequences_split_bars",
          "AbsoluteSequence.to_relative_sequence", "RelativeSequence.to_absolute_sequence"]

_cache: dict[int, OwnershipEngine] = {}


def engine_for(ctx: Ctx) -> OwnershipEngine:
    key = id(ctx.p)
    if key not in _cache:
        _cache.clear()
        _cache[key] = OwnershipEngine(ctx.p)
    return _cache[key]


def _opaque_functions(eng: OwnershipEngine) -> set:
    """Functions whose "may share" verdict rests, directly or through the callees named in its explanation, on a ** constructor call."""
    cached = getattr(eng, "_opaque", None)
    if cached is not None:
        return cached
    whys = {q: w for (q, k), w in eng.why.items() if k == "ret"}
    out = {q for q, w in whys.items() if OPAQUE in w}
    changed = True
    while changed:
        changed = False
        deps = getattr(eng, "dep", {})
        for q, w in whys.items():
            # (by the callees recorded while the verdict was computed, not by which of them the explanation happens to name)
            if q not in out and (any(f"{o}()" in w for o in out) or (deps.get(q, set()) & out)):
                out.add(q)
                changed = True
    eng._opaque = out
    return out


def check_routes(ctx: Ctx, rule: str = "OWN1", routes=None) -> None:
    eng = engine_for(ctx)
    p = ctx.p
    for q in routes or ROUTES:
        fi = p.func(q)
        ctx.analysed(fi)
        if eng.ret[q] == "FRESH":
            ctx.ok(rule, q, "returns only objects created by the call (messages copied, new lists)")
            ctx.sample({"route": q, "result": "fresh"})
        else:
            why = eng.why.get((q, "ret"), "")
            if q in _opaque_functions(eng):
                ctx.undetermined(rule, q, f"freshness of the result depends on a constructor call with ** arguments: not judged ({why[:120]})")
                continue
            ctx.violation(rule, q, function=q, construct="derivation route returns objects shared with its source",
                          message=f"the value returned by {q} may reference message objects or lists owned by the "
                                  f"source: {why}", file=fi.file, node=fi.node, path=[why] if why else [])


def check_no_internal_escape(ctx: Ctx, rule: str = "TS8") -> None:
    """Public Sequence accessors (other than the documented abs/rel/messages_* and the derivation routes judged by
    C16) must not hand out internal message objects."""
    eng = engine_for(ctx)
    p = ctx.p
    ci = p.cls("Sequence")
    documented = {"abs", "rel", "messages_abs", "messages_rel", "copy", "split", "__init__"}
    n = 0
    for m, fi in ci.methods.items():
        if fi.is_static or m in documented or m.startswith("_"):
            continue
        has_value_return = any(isinstance(x, ast.Return) and x.value is not None for x in walk_local(fi.node))
        if not has_value_return:
            continue
        n += 1
        if eng.ret[fi.qualname] == "FRESH":
            ctx.ok(rule, fi.qualname, "returns no internal message object")
        else:
            why = eng.why.get((fi.qualname, "ret"), "")
            ctx.violation(rule, fi.qualname, function=fi.qualname,
                          construct="public accessor returns internal message objects",
                          message=f"{fi.qualname} may hand out message objects stored inside the sequence (editing them "
                                  f"bypasses the view invalidation): {why}", file=fi.file, node=fi.node)
    ctx.floor("public value-returning Sequence methods", n, 10)


# ================================================================================================ ADOPT
STORE_METHODS = ("append", "extend", "insert", "add_message", "_add_message_unsorted", "__setitem__", "update", "add")


def adopted_foreign(eng: OwnershipEngine, fi: FuncInfo) -> list[tuple[ast.AST, str]]:
    """Stores of `fi` (a method) that put objects reachable from a *non-self* parameter into a container of `self`
    without copying them: [(node, explanation)].  Same expression taint as the route analysis, seeded with the foreign
    parameters only."""
    ft = _FuncTaint(eng, fi)
    own = ft.params[0] if fi.cls and ft.params else None
    for prm in ft.params:
        if prm == own:
            continue
        if eng.scalar_kind(eng.k.param_kinds.get((fi.qualname, prm))) or ft.scalar_annotation(prm):
            continue
        ft.B.add(prm)
        ft.note[prm] = f"parameter `{prm}`"
    body = list(walk_local(fi.node))
    for _ in range(40):
        before = len(ft.B)
        for n in body:
            ft.visit(n)
        if len(ft.B) == before:
            break
    out = []
    for n in body:
        if isinstance(n, ast.Call):
            recv, name = call_method(n)
            if recv is None or name not in STORE_METHODS:
                continue
            ch = attr_chain(recv) or []
            if not ch or ch[0] != "self":
                continue
            args = list(n.args) + [k.value for k in n.keywords]
            t, why = ft.any_T(args)
            if t:
                out.append((n, why))
        elif isinstance(n, (ast.Assign, ast.AugAssign)):
            tg = n.targets if isinstance(n, ast.Assign) else [n.target]
            for t_ in tg:
                ch = attr_chain(t_.value if isinstance(t_, ast.Subscript) else t_) or []
                if ch and ch[0] == "self" and len(ch) >= 2:
                    t, why = ft.T(n.value)
                    if t:
                        out.append((n, why))
    return out
