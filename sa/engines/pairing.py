"""PAIR -- the note pairing table (`AbsoluteSequence.get_message_pairings`) decided case by case.

The tokeniser, `equals`, `quantise_note_lengths`, `cutoff` and the composition builder all read notes as
`[note_on, note_off]` lists produced by this one function.  The rule interprets the body of its message loop once per
case (message kind) x (a note of this channel and pitch is open / is not) x (imputation on / off) with the tests on
the open-note table and on the flag decided by the case, and compares the observed events with the required table:

    NOTE_ON   silent pitch         a new pairing [msg] is appended; its index (len - 1, taken after the append) recorded
    NOTE_ON   open, imputing       the open pairing is closed by a synthesised NOTE_OFF at the new onset (entry popped),
                                   then as above
    NOTE_OFF  open                 the entry is popped and the message itself appended to the pairing at that index
    NOTE_OFF  not open             nothing is appended anywhere
    other kind                     appended as a singleton pairing

and, after the loop, that a pairing still holding only a NOTE_ON is completed with a NOTE_OFF of the same channel and
pitch at onset + standard_length (under the imputation flag).  Table roles are discovered from the code (the returned
dictionary = pairings, the dictionary tested with `in` / popped = open notes); no names are assumed.
"""
from __future__ import annotations

import ast

from ..astutil import call_method, short, src
from ..linear import Normaliser, Sym
from ..report import Ctx
from .typecase import TCState, TypeCase, V, events_matching, find_message_loops

FN = "AbsoluteSequence.get_message_pairings"


def _level(e: ast.AST):
    """One look-up level below `e`: `x[k]` and `x.get(k, <empty container>)` (a missing key reads as an empty table)."""
    if isinstance(e, ast.Subscript):
        return e.value
    if isinstance(e, ast.Call) and isinstance(e.func, ast.Attribute) and e.func.attr == "get" and len(e.args) == 2 and not e.keywords:
        d = e.args[1]
        empty = (isinstance(d, (ast.Dict, ast.List, ast.Tuple, ast.Set)) and not (getattr(d, "keys", None) or getattr(d, "elts", None))) \
            or (isinstance(d, ast.Call) and isinstance(d.func, ast.Name) and d.func.id in ("dict", "list", "tuple", "set") and not d.args)
        if empty:
            return e.func.value
    return None


def _base_name(e: ast.AST) -> str | None:
    while _level(e) is not None:
        e = _level(e)
    return e.id if isinstance(e, ast.Name) else None


def _depth(e: ast.AST) -> int:
    d = 0
    while _level(e) is not None:
        d += 1
        e = _level(e)
    return d


class _PairCase(TypeCase):
    def __init__(self, *a, pairs: str, opens: str, flag: str | None, types_param: str | None, is_open: bool, impute: bool, **kw):
        super().__init__(*a, **kw)
        self.pairs, self.opens, self.flag, self.types_param = pairs, opens, flag, types_param
        self.is_open, self.impute = is_open, impute

    # tests on the open-note table and on the flag are decided by the case
    def truth(self, test, st):
        if isinstance(test, ast.Name) and test.id == self.flag:
            return self.impute
        if isinstance(test, ast.Compare) and len(test.ops) == 1 and isinstance(test.ops[0], (ast.In, ast.NotIn)):
            c = test.comparators[0]
            neg = isinstance(test.ops[0], ast.NotIn)
            if isinstance(c, ast.Name) and c.id == self.types_param:
                req = getattr(self, "requested", True)
                return req != neg                   # the case says whether the kind is among the requested kinds
            if _base_name(c) == self.opens:
                opened = st.vals.get("$open", frozenset([self.is_open]))
                if len(opened) != 1:
                    return None
                o = next(iter(opened))
                if _depth(c) == 0:                  # channel (not) in table: known only when a note is open
                    return (not neg) if o else None
                return (not o) if neg else o
        return super().truth(test, st)

    def event_for_call(self, c, st):
        recv, name = call_method(c)
        if recv is not None and name == "pop" and _base_name(recv) == self.opens:
            return ("pop",)
        if recv is not None and name == "append" and _base_name(recv) == self.pairs and c.args:
            a = c.args[0]
            if _depth(recv) == 1:
                if isinstance(a, ast.List) and len(a.elts) == 1 and self.is_msg(a.elts[0], st):
                    return ("newpair",)
                return ("newpair-other", short(a, 40))
            if _depth(recv) == 2:
                idx = recv.slice
                from_pop = isinstance(idx, ast.Name) and st.vals.get(idx.id) == V("popidx")
                cls = self.classify(a, st)
                if cls.startswith("new:"):
                    kw = {k.arg: k.value for k in a.keywords} if isinstance(a, ast.Call) else {}
                    same = all(k in kw and isinstance(kw[k], ast.Attribute) and kw[k].attr == k and self.is_msg(kw[k].value, st)
                               for k in ("channel", "note", "time"))
                    cls += "@msg" if same else "@other"
                return ("close", cls, "popped-index" if from_pop else "other-index")
        return super().event_for_call(c, st)

    def stmt(self, s, st):
        if isinstance(s, ast.Assign) and len(s.targets) == 1:
            t, v = s.targets[0], s.value
            if isinstance(t, ast.Name) and isinstance(v, ast.Call) and call_method(v)[1] == "pop" and _base_name(call_method(v)[0]) == self.opens:
                st.bump(("pop",))
                st.vals["$open"] = frozenset([False])
                st.vals[t.id] = V("popidx")
                return st
            if isinstance(t, ast.Subscript) and _base_name(t) == self.opens and _depth(t) == 2:
                ok = isinstance(v, ast.BinOp) and isinstance(v.op, ast.Sub) and isinstance(v.right, ast.Constant) and v.right.value == 1 \
                    and isinstance(v.left, ast.Call) and isinstance(v.left.func, ast.Name) and v.left.func.id == "len" and v.left.args \
                    and _base_name(v.left.args[0]) == self.pairs and _depth(v.left.args[0]) == 1
                after = st.get(("newpair",)) == (1, 1)
                # the same index taken the other way round: len(pairings) *before* the new pairing is appended (the case requires that
                # exactly one new pairing is appended, so an append follows on this path)
                plain = isinstance(v, ast.Call) and isinstance(v.func, ast.Name) and v.func.id == "len" and v.args \
                    and _base_name(v.args[0]) == self.pairs and _depth(v.args[0]) == 1 and st.get(("newpair",)) == (0, 0)
                st.bump(("openstore", "index of the new pairing" if (ok and after) or plain else ("len-1 before the append" if ok else short(v, 40))))
                st.vals["$open"] = frozenset([True])
                return st
        if isinstance(s, ast.Expr) and isinstance(s.value, ast.Call) and call_method(s.value)[1] == "pop" \
                and _base_name(call_method(s.value)[0]) == self.opens:
            st.bump(("pop",))
            st.vals["$open"] = frozenset([False])
            return st
        if isinstance(s, ast.Delete):
            for t in s.targets:
                if _base_name(t) == self.opens:
                    st.bump(("pop",))
                    st.vals["$open"] = frozenset([False])
            return st
        return super().stmt(s, st)


def check_pairings(ctx: Ctx, rule: str = "PAIR") -> int:
    p = ctx.p
    fi = p.functions.get(FN)
    if fi is None:
        ctx.undetermined(rule, FN, "function not found")
        return 0
    ctx.analysed(fi)
    fn = fi.node
    loops = find_message_loops(fn)
    ret = [s for s in fn.body if isinstance(s, ast.Return) and isinstance(s.value, ast.Name)]
    if not loops or not ret:
        ctx.undetermined(rule, FN, "message loop / returned table not recognised: not judged")
        return 0
    loop = loops[0]
    pairs = ret[-1].value.id
    dicts = {s.targets[0].id for s in fn.body if isinstance(s, ast.Assign) and isinstance(s.targets[0], ast.Name) and
             ((isinstance(s.value, ast.Call) and isinstance(s.value.func, ast.Name) and s.value.func.id == "dict") or isinstance(s.value, ast.Dict))}
    cand = {n for n in dicts - {pairs}
            if any(isinstance(c, ast.Compare) and isinstance(c.ops[0], (ast.In, ast.NotIn)) and _base_name(c.comparators[0]) == n for c in ast.walk(loop))}
    if len(cand) != 1:
        ctx.undetermined(rule, FN, f"open-note table not recognised ({sorted(cand)}): not judged")
        return 0
    opens = next(iter(cand))
    params = [a.arg for a in fn.args.args]
    flag = next((a for a in params if any(isinstance(n, ast.Name) and n.id == a for t in ast.walk(loop) if isinstance(t, (ast.If, ast.BoolOp)) for n in ast.walk(t))
                 and a not in ("self",) and not any(isinstance(c, ast.Compare) and isinstance(c.comparators[0], ast.Name) and c.comparators[0].id == a for c in ast.walk(loop))), None)
    types_param = next((a for a in params if any(isinstance(c, ast.Compare) and isinstance(c.ops[0], ast.In) and isinstance(c.comparators[0], ast.Name)
                                                 and c.comparators[0].id == a for c in ast.walk(loop))), None)
    m = loop.target.id
    n = 0

    def run(T, is_open, impute):
        tc = _PairCase(p, fi, {m}, T, pairs=pairs, opens=opens, flag=flag, types_param=types_param, is_open=is_open, impute=impute)
        exits = tc.run_body(loop.body)
        def ev(pred):
            return events_matching(exits, pred, kinds=("end", "continue"))
        return {
            "newpair": ev(lambda e: e == ("newpair",)),
            "newpair_other": ev(lambda e: e[0] == "newpair-other"),
            "pop": ev(lambda e: e == ("pop",)),
            "close_msg": ev(lambda e: e[0] == "close" and e[1] == "msg" and e[2] == "popped-index"),
            "close_imputed": ev(lambda e: e[0] == "close" and e[1] == "new:NOTE_OFF@msg" and e[2] == "popped-index"),
            "close_any": ev(lambda e: e[0] == "close"),
            "store_ok": ev(lambda e: e[0] == "openstore" and e[1] == "index of the new pairing"),
            "store_any": ev(lambda e: e[0] == "openstore"),
            "exits": sorted({k for k, _ in exits}),
        }

    Z, ONE = (0, 0), (1, 1)
    cases = [
        ("NOTE_ON", False, True, "a note-on of a silent pitch", dict(newpair=ONE, newpair_other=Z, pop=Z, close_any=Z, store_ok=ONE, store_any=ONE)),
        ("NOTE_ON", False, False, "a note-on of a silent pitch (imputation off)", dict(newpair=ONE, newpair_other=Z, pop=Z, close_any=Z, store_ok=ONE, store_any=ONE)),
        ("NOTE_ON", True, True, "a note-on of a pitch that is still open (imputation on)",
         dict(newpair=ONE, newpair_other=Z, pop=ONE, close_imputed=ONE, close_any=ONE, store_ok=ONE, store_any=ONE)),
        ("NOTE_ON", True, False, "a note-on of a pitch that is still open (imputation off)", dict(newpair=ONE, newpair_other=Z, close_any=Z, store_ok=ONE, store_any=ONE)),
        ("NOTE_OFF", True, True, "a note-off of an open note", dict(newpair=Z, newpair_other=Z, pop=ONE, close_msg=ONE, close_any=ONE, store_any=Z)),
        ("NOTE_OFF", True, False, "a note-off of an open note (imputation off)", dict(newpair=Z, newpair_other=Z, pop=ONE, close_msg=ONE, close_any=ONE, store_any=Z)),
        ("NOTE_OFF", False, True, "a note-off without an open note", dict(newpair=Z, newpair_other=Z, pop=Z, close_any=Z, store_any=Z)),
        ("NOTE_OFF", False, False, "a note-off without an open note (imputation off)", dict(newpair=Z, newpair_other=Z, pop=Z, close_any=Z, store_any=Z)),
        ("CONTROL_CHANGE", False, True, "a requested message of another kind", dict(newpair=ONE, newpair_other=Z, pop=Z, close_any=Z, store_any=Z)),
    ]
    words = {"newpair": "new [msg] pairings appended", "newpair_other": "pairings appended that are not [msg]", "pop": "open-table entries removed",
             "close_msg": "times the message itself is appended to the pairing at the popped index",
             "close_imputed": "synthesised NOTE_OFFs (same channel, pitch, at the new onset) appended to the pairing at the popped index",
             "close_any": "messages appended to an existing pairing", "store_ok": "times the index of the new pairing (len - 1 after the append) is recorded",
             "store_any": "writes to the open-note table"}
    for T, is_open, impute, what, want in cases:
        got = run(T, is_open, impute)
        bad = {k: (got[k], v) for k, v in want.items() if got[k] != v}
        n += 1
        ctx.check(not bad, rule, f"{FN}: {what}: " + ", ".join(f"{k}={got[k]}" for k in want), function=FN,
                  construct=f"pairing table: {what} is not handled as required ({', '.join(sorted(bad))})" if bad else "ok",
                  message="; ".join(f"{words[k]}: [min,max]={g}, required {w}" for k, (g, w) in bad.items())
                          + " -- notes are read everywhere as [note_on, note_off] lists built here", file=fi.file, node=loop)
    # a message whose kind was not requested leaves no trace: not even an (empty) channel entry -- the order of the returned
    # dictionary decides ties between channels in the interleaving, so it may depend on requested kinds only
    for T in ("NOTE_ON", "TIME_SIGNATURE"):
        tc = _PairCase(p, fi, {m}, T, pairs=pairs, opens=opens, flag=flag, types_param=types_param, is_open=False, impute=True)
        tc.requested = False
        exits = tc.run_body(loop.body)
        touched = events_matching(exits, lambda e: (e[0] == "call" and e[1].split(".")[0].split("[")[0] in (pairs, opens))
                                  or e[0] in ("newpair", "newpair-other", "close", "pop", "openstore")
                                  or (e[0] == "substore" and e[1].split("[")[0] in (pairs, opens)), kinds=("end", "continue")) or (0, 0)
        n += 1
        ctx.check(touched == (0, 0), rule, f"{FN}: a {T} that was not requested touches neither table {touched}", function=FN,
                  construct="a message of a kind that was not requested changes the pairing tables",
                  message=f"table operations [min,max]={touched}: an ignored kind (equals with an ignore flag) would still create channel entries and "
                          f"thereby decide the channel order of the result", file=fi.file, node=loop)
    # defaults: imputation on, and a missing kind list replaced by the two note kinds, before the pass
    defaults = dict(zip(params[len(params) - len(fn.args.defaults):], fn.args.defaults))
    if flag is not None:
        n += 1
        d = defaults.get(flag)
        ctx.check(isinstance(d, ast.Constant) and d.value is True, rule, f"{FN}: `{flag}` defaults to True", function=FN,
                  construct="imputation is not the default of the pairing table",
                  message="cutoff, quantise_note_lengths and the composition builder call without the flag and index pairing[1]", file=fi.file, node=fn)
    if types_param is not None:
        n += 1
        dflt = None
        for s_ in fn.body:
            if getattr(s_, "lineno", 0) >= loop.lineno:
                break
            if isinstance(s_, ast.If) and isinstance(s_.test, ast.Compare) and isinstance(s_.test.left, ast.Name) and s_.test.left.id == types_param \
                    and isinstance(s_.test.ops[0], ast.Is) and isinstance(s_.test.comparators[0], ast.Constant) and s_.test.comparators[0].value is None:
                for a in s_.body:
                    if isinstance(a, ast.Assign) and isinstance(a.targets[0], ast.Name) and a.targets[0].id == types_param and isinstance(a.value, (ast.List, ast.Tuple, ast.Set)):
                        dflt = {e.attr for e in a.value.elts if isinstance(e, ast.Attribute)}
        ctx.check(dflt == {"NOTE_ON", "NOTE_OFF"}, rule, f"{FN}: a missing kind list is replaced by {sorted(dflt) if dflt else dflt}", function=FN,
                  construct="default kind list of the pairing table is not {NOTE_ON, NOTE_OFF}",
                  message="callers that pass no kinds expect note pairings only", file=fi.file, node=fn)
    # the sort that makes "open" mean "started earlier"
    first_loop_line = loop.lineno
    srt = [c for s in fn.body if getattr(s, "lineno", 0) < first_loop_line for c in ast.walk(s)
           if isinstance(c, ast.Call) and call_method(c)[1] in ("normalise_absolute", "sort")]
    n += 1
    ctx.check(bool(srt), rule, f"{FN}: the list is put in order before the pairing pass", function=FN,
              construct="pairing pass runs on a list that was not sorted first", message="a note-off sorted after the next note-on of its pitch is paired with the wrong note",
              file=fi.file, node=loop)
    # completion of notes left open
    after = [s for s in fn.body if getattr(s, "lineno", 0) > loop.end_lineno]
    comp = None
    for s in after:
        for c in ast.walk(s):
            if isinstance(c, ast.Call) and call_method(c)[1] == "append" and c.args and isinstance(c.args[0], ast.Call) \
                    and isinstance(c.args[0].func, ast.Name) and c.args[0].func.id == "Message":
                comp = c
    n += 1
    if comp is None:
        ctx.check(False, rule, f"{FN}: notes still open at the end are completed", function=FN, construct="no completion of unclosed notes",
                  message="a pairing holding only a note-on breaks every reader that takes pairing[1]", file=fi.file, node=fn)
        return n
    recv = src(call_method(comp)[0])
    kw = {k.arg: k.value for k in comp.args[0].keywords}
    nz = Normaliser()
    first = f"{recv}[0]"
    def is_first_attr(e, attr):
        return isinstance(e, ast.Attribute) and e.attr == attr and src(e.value) == first
    mt = kw.get("message_type")
    okt = isinstance(mt, ast.Attribute) and mt.attr == "NOTE_OFF"
    okc = is_first_attr(kw.get("channel"), "channel") and is_first_attr(kw.get("note"), "note")
    std = next((a for a in params if "length" in a), None)
    t = kw.get("time")
    okl = t is not None and std is not None and nz.norm(t) == Sym.atom(f"{first}.time") + Sym.atom(std)
    ctx.check(okt and okc and okl, rule, f"{FN}: completion `{short(comp.args[0], 90)}`", function=FN,
              construct="completion of an unclosed note is not a NOTE_OFF of the same channel and pitch at onset + standard length",
              message=f"type ok={okt}, channel/pitch from the note-on={okc}, time = onset + {std}: {okl}", file=fi.file, node=comp)
    # its guard: exactly the pairings that hold a lone NOTE_ON
    guard = None
    q = comp
    while q is not None and not isinstance(q, ast.If):
        q = getattr(q, "_parent", None)
    guard = q
    n += 1
    if guard is None:
        ctx.check(False, rule, f"{FN}: the completion is guarded", function=FN, construct="completion of unclosed notes is unguarded",
                  message="every pairing would receive an extra note-off", file=fi.file, node=comp)
        return n
    conj = guard.test.values if isinstance(guard.test, ast.BoolOp) and isinstance(guard.test.op, ast.And) else [guard.test]
    has_len = any(isinstance(c, ast.Compare) and isinstance(c.left, ast.Call) and isinstance(c.left.func, ast.Name) and c.left.func.id == "len"
                  and src(c.left.args[0]) == recv and isinstance(c.ops[0], ast.Eq) and isinstance(c.comparators[0], ast.Constant) and c.comparators[0].value == 1
                  for c in conj)
    has_on = any(isinstance(c, ast.Compare) and isinstance(c.ops[0], ast.Eq) and is_first_attr(c.left, "message_type")
                 and isinstance(c.comparators[0], ast.Attribute) and c.comparators[0].attr == "NOTE_ON" for c in conj)
    extra = [c for c in conj if not (isinstance(c, ast.Name) and c.id == flag) and not isinstance(c, ast.Compare)]
    ctx.check(has_len and has_on and not extra, rule, f"{FN}: completion guard `{short(guard.test, 90)}`", function=FN,
              construct="completion guard is not `a pairing that holds exactly one message, a NOTE_ON`",
              message=f"length == 1 test: {has_len}; first is NOTE_ON test: {has_on}; unrecognised conjuncts: {[short(c) for c in extra]}", file=fi.file, node=guard)
    return n
