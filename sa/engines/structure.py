def conversion_structure(ctx):
    pass
