"""Structural rules on small helper functions shared by several properties:
CONV (the two view conversions, C04), ARGMIN (find_minimal_distance, C05/C06), INTERLEAVE (per-channel pairings merged
by onset, C01/C17)."""
from __future__ import annotations

import ast

from ..astutil import attr_chain, call_method, enum_member, kwarg, short, src, ancestors
from ..linear import Normaliser, Sym, relation, same_relation
from ..model import walk_local, AnalysisError
from ..report import Ctx
from .typecase import TypeCase, events_matching


def _loop_over_messages(fn: ast.FunctionDef) -> ast.For | None:
    for n in fn.body:
        if isinstance(n, ast.For) and isinstance(n.target, ast.Name) and attr_chain(n.iter) == ["self", "_messages"]:
            return n
    return None


def _result_sinks(fn: ast.FunctionDef) -> set:
    """Names that stand for the result's event list: the returned object, and a local list handed to its constructor as `messages`
    (`out = []` ... `return Cls(messages=out)` fills the result exactly like `seq.add_message(...)` calls on the returned object)."""
    sinks = set()
    for r in walk_local(fn):
        if isinstance(r, ast.Return) and r.value is not None:
            v = r.value
            if isinstance(v, ast.Name):
                sinks.add(v.id)
                nm = v.id
                for a in walk_local(fn):
                    if isinstance(a, ast.Assign) and len(a.targets) == 1 and isinstance(a.targets[0], ast.Name) and a.targets[0].id == nm and isinstance(a.value, ast.Call):
                        v = a.value
            if isinstance(v, ast.Call):
                lst = kwarg(v, "messages") or (v.args[0] if v.args else None)
                if isinstance(lst, ast.Name):
                    sinks.add(lst.id)
    return sinks


def conversion_structure(ctx: Ctx) -> None:
    p = ctx.p
    # ------------------------------------------------------------------ absolute -> relative
    q = "AbsoluteSequence.to_relative_sequence"
    fi = p.func(q)
    ctx.analysed(fi)
    loop = _loop_over_messages(fi.node)
    if loop is None:
        raise AnalysisError(f"{q}: message loop not found")
    m = loop.target.id
    res = next((r.value.id for r in walk_local(fi.node) if isinstance(r, ast.Return) and isinstance(r.value, ast.Name)), None)
    sinks = _result_sinks(fi.node)
    for T in p.enum_order("MessageType"):
        tc = TypeCase(p, fi, {m}, T)
        exits = tc.run_body(loop.body)
        copies = events_matching(exits, lambda e: e[0] == "append" and e[1] in sinks and e[2] in ("copy-of-msg", "other", "maybe-msg"))
        raw = events_matching(exits, lambda e: e[0] == "append" and e[1] in sinks and e[2] == "msg")
        kinds = {k for k, _ in exits}
        want = (0, 0) if T == "INTERNAL" else (1, 1)
        ctx.check(kinds == {"end"} and (copies or (0, 0)) == want and (raw or (0, 0)) == (0, 0), "CONV",
                  f"{q}: {T} -> copied {copies} time(s)", function=q,
                  construct=f"absolute to relative conversion does not carry a {T} event over exactly {'zero' if T == 'INTERNAL' else 'one'} time(s) as a copy",
                  message=f"copies {copies}, raw appends {raw}, exits {sorted(kinds)}", file=fi.file, node=loop)
    # wait insertion: WAIT(time - clock) under `time > clock`, then clock = time
    clock = None
    for s in fi.node.body:
        if isinstance(s, ast.Assign) and isinstance(s.targets[0], ast.Name) and isinstance(s.value, ast.Constant) and s.value.value == 0:
            clock = s.targets[0].id
    waits = [c for c in ast.walk(loop) if isinstance(c, ast.Call) and isinstance(c.func, ast.Name) and c.func.id == "Message"
             and enum_member(kwarg(c, "message_type"), "MessageType") == "WAIT"]
    ctx.check(len(waits) == 1 and clock is not None, "CONV", f"{q}: one wait insertion site", function=q, construct="wait insertion missing or duplicated in the absolute to relative conversion",
              message=f"{len(waits)} site(s)", file=fi.file, node=loop)
    if len(waits) == 1 and clock is not None:
        w = waits[0]
        nz = Normaliser()
        nz.run_block([s for s in loop.body if isinstance(s, ast.Assign) and s.lineno < w.lineno])
        got = nz.norm(kwarg(w, "time"))
        want = Sym.atom(f"{m}.time") - Sym.atom(clock)
        ctx.check(got == want, "CONV", f"{q}: inserted wait = event time - clock", function=q,
                  construct="inserted wait is not the event time minus the running clock", message=got.canon(), file=fi.file, node=w)
        g = next((a for a in ancestors(w) if isinstance(a, ast.If)), None)
        ok = False
        if g is not None and isinstance(g.test, ast.Compare) and len(g.test.ops) == 1:
            l, r = nz.norm(g.test.left), nz.norm(g.test.comparators[0])
            ok = (isinstance(g.test.ops[0], ast.Gt) and l == Sym.atom(f"{m}.time") and r == Sym.atom(clock)) or \
                 (isinstance(g.test.ops[0], ast.Lt) and r == Sym.atom(f"{m}.time") and l == Sym.atom(clock))
        ctx.check(ok, "CONV", f"{q}: a wait is inserted exactly when the event lies after the clock", function=q,
                  construct="wait insertion guard is not `event time > clock`", message=short(getattr(g, "test", None)), file=fi.file, node=w)
        ups = [s for s in (g.body if g is not None else []) if isinstance(s, ast.Assign) and isinstance(s.targets[0], ast.Name) and s.targets[0].id == clock]
        ctx.check(len(ups) == 1 and nz.norm(ups[0].value) == Sym.atom(f"{m}.time"), "CONV", f"{q}: the clock advances to the event time", function=q,
                  construct="running clock not advanced to the event time after inserting a wait", message=f"{[short(u) for u in ups]}", file=fi.file, node=w)
        all_ups = [s for s in ast.walk(loop) if isinstance(s, (ast.Assign, ast.AugAssign)) and
                   any(isinstance(t, ast.Name) and t.id == clock for t in (s.targets if isinstance(s, ast.Assign) else [s.target]))]
        ctx.check(len(all_ups) == 1, "CONV", f"{q}: the clock changes only there", function=q, construct="running clock updated elsewhere in the conversion", message="",
                  file=fi.file, node=loop)
    # copied events lose their absolute time
    tnone = [s for s in ast.walk(loop) if isinstance(s, ast.Assign) and isinstance(s.targets[0], ast.Attribute) and s.targets[0].attr == "time"
             and isinstance(s.value, ast.Constant) and s.value.value is None]
    ctx.check(bool(tnone), "CONV", f"{q}: copied events carry no time of their own", function=q, construct="copied events keep their absolute time in the relative view",
              message="", file=fi.file, node=loop)

    # ------------------------------------------------------------------ relative -> absolute
    q = "RelativeSequence.to_absolute_sequence"
    fi = p.func(q)
    ctx.analysed(fi)
    loop = _loop_over_messages(fi.node)
    if loop is None:
        raise AnalysisError(f"{q}: message loop not found")
    m = loop.target.id
    res = next((r.value.id for r in walk_local(fi.node) if isinstance(r, ast.Return) and isinstance(r.value, ast.Name)), None)
    sinks = _result_sinks(fi.node)
    clock = None
    for n in ast.walk(loop):
        if isinstance(n, ast.AugAssign) and isinstance(n.target, ast.Name) and src(n.value) == f"{m}.time" and isinstance(n.op, ast.Add):
            clock = n.target.id
    if clock is None:
        ctx.violation("CONV", f"{q}: clock accumulation", function=q, construct="relative to absolute conversion does not accumulate wait times",
                      message="no `clock += msg.time`", file=fi.file, node=loop)
        return
    inits = [s_ for s_ in fi.node.body if isinstance(s_, (ast.Assign, ast.AnnAssign)) and s_.lineno < loop.lineno
             and any(isinstance(t_, ast.Name) and t_.id == clock for t_ in (s_.targets if isinstance(s_, ast.Assign) else [s_.target]))]
    ctx.check(len(inits) == 1 and isinstance(inits[0].value, ast.Constant) and inits[0].value.value == 0 and not isinstance(inits[0].value.value, bool), "CONV",
              f"{q}: the clock starts at 0", function=q, construct="the clock of the relative to absolute conversion does not start at 0",
              message=f"`{short(inits[0], 60) if inits else 'no initialisation before the loop'}`: every event of the absolute view is shifted", file=fi.file,
              node=inits[0] if inits else loop)
    flag = None
    for s in fi.node.body:
        if isinstance(s, ast.Assign) and isinstance(s.targets[0], ast.Name) and isinstance(s.value, ast.Constant) and isinstance(s.value.value, bool):
            flag = s.targets[0].id
            flag_init = s.value.value
    for T in p.enum_order("MessageType"):
        tc = TypeCase(p, fi, {m}, T)
        exits = tc.run_body(loop.body)
        acc = events_matching(exits, lambda e: e[0] == "aug" and e[1] == clock)
        app = events_matching(exits, lambda e: e[0] == "append" and e[1] in sinks)
        kinds = {k for k, _ in exits}
        if T == "WAIT":
            ok = (acc or (0, 0)) == (1, 1) and (app or (0, 0)) == (0, 0)
        else:
            ok = (acc or (0, 0)) == (0, 0) and (app or (0, 0)) == (1, 1)
        ctx.check(ok and kinds == {"end"}, "CONV", f"{q}: {T}: clock += {acc}, events added {app}", function=q,
                  construct=f"relative to absolute conversion mishandles {T} messages",
                  message=f"clock accumulations {acc}, events added {app}, exits {sorted(kinds)} (a WAIT only advances the clock; every other message "
                          f"is added exactly once)", file=fi.file, node=loop)
    stores = [s for s in ast.walk(loop) if isinstance(s, ast.Assign) and isinstance(s.targets[0], ast.Attribute) and s.targets[0].attr == "time"]
    ctx.check(len(stores) == 1 and isinstance(stores[0].value, ast.Name) and stores[0].value.id == clock, "CONV",
              f"{q}: each event is stamped with the accumulated clock", function=q, construct="converted events are not stamped with the accumulated wait time",
              message=f"{[short(s) for s in stores]}", file=fi.file, node=loop)
    copied = [s for s in ast.walk(loop) if isinstance(s, ast.Assign) and isinstance(s.value, ast.Call) and call_method(s.value)[1] == "copy"
              and isinstance(call_method(s.value)[0], ast.Name) and call_method(s.value)[0].id == m]
    ctx.check(bool(copied), "CONV", f"{q}: events are copied, not moved", function=q, construct="relative to absolute conversion re-uses the message objects",
              message="", file=fi.file, node=loop)
    # trailing cap: added iff the sequence ends in a wait, at the final clock value
    caps = [c for s in fi.node.body if s.lineno > loop.end_lineno for c in ast.walk(s) if isinstance(c, ast.Call) and isinstance(c.func, ast.Name)
            and c.func.id == "Message" and enum_member(kwarg(c, "message_type"), "MessageType") == "INTERNAL"]
    ctx.check(len(caps) == 1, "CONV", f"{q}: one trailing cap message", function=q, construct="trailing duration cap missing or duplicated", message=f"{len(caps)}",
              file=fi.file, node=fi.node)
    if len(caps) == 1 and flag is not None:
        c = caps[0]
        t = kwarg(c, "time")
        inner = t.args[0] if isinstance(t, ast.Call) and isinstance(t.func, ast.Name) and t.func.id == "int" and t.args else t
        ctx.check(isinstance(inner, ast.Name) and inner.id == clock, "CONV", f"{q}: the cap sits at the final clock value", function=q,
                  construct="trailing cap not placed at the accumulated duration", message=short(t), file=fi.file, node=c)
        g = next((a for a in ancestors(c) if isinstance(a, ast.If)), None)
        guard_ok = g is not None and ((isinstance(g.test, ast.UnaryOp) and isinstance(g.test.op, ast.Not) and isinstance(g.test.operand, ast.Name)
                                       and g.test.operand.id == flag) or (isinstance(g.test, ast.Name) and g.test.id == flag))
        negated = g is not None and isinstance(g.test, ast.UnaryOp)
        # flag semantics: value after a WAIT vs after any other message
        after = {}
        for T in ("WAIT", "NOTE_ON"):
            tc = TypeCase(p, fi, {m}, T)
            exits = tc.run_body(loop.body)
            vals = set()
            for k, st in exits:
                for e, v in st.counts.items():
                    if e[0] == "set" and e[1] == flag and v[1] >= 1:
                        vals.add(e[2])
            after[T] = vals
        # the cap must be added exactly when the last message was a WAIT
        wait_val = next(iter(after["WAIT"])) if len(after["WAIT"]) == 1 else None
        other_val = next(iter(after["NOTE_ON"])) if len(after["NOTE_ON"]) == 1 else None
        consistent = guard_ok and wait_val is not None and other_val is not None and wait_val != other_val and \
            ((negated and wait_val == "False") or (not negated and wait_val == "True"))
        ctx.check(consistent, "CONV", f"{q}: the cap is added exactly when the sequence ends in a wait", function=q,
                  construct="trailing cap not tied to `the last message was a wait`",
                  message=f"guard `{short(getattr(g, 'test', None))}`, flag after WAIT {sorted(after['WAIT'])}, after other {sorted(after['NOTE_ON'])}", file=fi.file, node=c)
        ctx.check((flag_init is True and negated) or (flag_init is False and not negated), "CONV", f"{q}: an empty sequence gets no cap", function=q,
                  construct="initial cap flag would add a cap to an empty sequence", message=f"initial {flag_init}", file=fi.file, node=fi.node)
    if len(caps) == 1 and flag is None:
        # no bookkeeping flag: the guard itself is evaluated in the three situations a sequence can end in
        c = caps[0]
        t = kwarg(c, "time")
        inner = t.args[0] if isinstance(t, ast.Call) and isinstance(t.func, ast.Name) and t.func.id == "int" and t.args else t
        ctx.check(isinstance(inner, ast.Name) and inner.id == clock, "CONV", f"{q}: the cap sits at the final clock value", function=q,
                  construct="trailing cap not placed at the accumulated duration", message=short(t), file=fi.file, node=c)
        aliases = {f"{res}._messages"}
        for s_ in fi.node.body:
            if isinstance(s_, ast.Assign) and isinstance(s_.targets[0], ast.Name) and src(s_.value) in aliases:
                aliases.add(s_.targets[0].id)

        def tv(e, n_events, last_before_clock):
            if isinstance(e, ast.BoolOp):
                vals = []
                for v in e.values:
                    x = tv(v, n_events, last_before_clock)
                    vals.append(x)
                    if isinstance(e.op, ast.And) and x is False:
                        return False
                    if isinstance(e.op, ast.Or) and x is True:
                        return True
                return None if any(v is None for v in vals) else (all(vals) if isinstance(e.op, ast.And) else any(vals))
            if isinstance(e, ast.UnaryOp) and isinstance(e.op, ast.Not):
                x = tv(e.operand, n_events, last_before_clock)
                return None if x is None else not x
            if src(e) in aliases:
                return n_events > 0
            if isinstance(e, ast.Compare) and len(e.ops) == 1:
                l, r, op = e.left, e.comparators[0], e.ops[0]
                if isinstance(l, ast.Call) and isinstance(l.func, ast.Name) and l.func.id == "len" and l.args and src(l.args[0]) in aliases \
                        and isinstance(r, ast.Constant) and isinstance(r.value, int):
                    n = 0 if n_events == 0 else 1
                    if n_events > 0 and r.value >= 1 and isinstance(op, (ast.Gt, ast.NotEq, ast.Eq, ast.LtE)) and r.value == 1:
                        return None         # one or more events: not decidable against 1
                    return {ast.Gt: n > r.value, ast.GtE: n >= r.value, ast.Eq: n == r.value, ast.NotEq: n != r.value, ast.Lt: n < r.value,
                            ast.LtE: n <= r.value}.get(type(op))
                last_time = [x for x in (l, r) if isinstance(x, ast.Attribute) and x.attr == "time" and isinstance(x.value, ast.Subscript)
                             and src(x.value.value) in aliases]
                clk = [x for x in (l, r) if isinstance(x, ast.Name) and x.id == clock]
                if last_time and clk and n_events > 0:
                    lt_first = last_time[0] is l
                    if isinstance(op, (ast.Lt, ast.Gt)):
                        holds_when_before = isinstance(op, ast.Lt) == lt_first
                        return last_before_clock if holds_when_before else False if last_before_clock else None
                    if isinstance(op, (ast.NotEq,)):
                        return last_before_clock
                    if isinstance(op, (ast.Eq, ast.GtE, ast.LtE)):
                        return None if not last_before_clock else (isinstance(op, ast.LtE) == lt_first if not isinstance(op, ast.Eq) else False)
            return None
        pcs = []
        child = c
        for a in ancestors(c):
            if isinstance(a, ast.FunctionDef):
                break
            if isinstance(a, ast.If):
                pcs.append((a.test, any(child is x or child in list(ast.walk(x)) for x in a.body)))
            child = a
        situations = [("a sequence that consists of waits only", 0, True), ("a sequence that ends in a wait after its last event", 1, True)]
        for what, n_ev, before in situations:
            verdicts = [tv(t_, n_ev, before) if holds else (None if tv(t_, n_ev, before) is None else not tv(t_, n_ev, before)) for t_, holds in pcs]
            reachable = not any(v is False for v in verdicts)
            ctx.check(reachable, "CONV", f"{q}: {what} gets its trailing cap", function=q,
                      construct=f"the trailing cap is not added for {what}",
                      message=f"guard {[short(t_, 70) for t_, _ in pcs]} is false there: the duration carried by the trailing waits is lost in the absolute view "
                              f"(and the view may be empty, which makes the sequence unreadable)", file=fi.file, node=c)
    # result is sorted before the cap is inserted
    srt = [c for s in fi.node.body if s.lineno > loop.end_lineno for c in ast.walk(s) if isinstance(c, ast.Call) and call_method(c)[1] in ("normalise_absolute", "sort")]
    ctx.check(bool(srt), "CONV", f"{q}: the converted list is put into canonical order", function=q, construct="converted absolute list is not sorted",
              message="", file=fi.file, node=fi.node)


# --------------------------------------------------------------------------------------------------------------------
def argmin_rule(ctx: Ctx, rule: str = "ARGMIN") -> None:
    """find_minimal_distance(element, collection) has the argmin shape: distance = abs(candidate - element), the best
    distance and its index are updated together under `distance < best`, the index is returned."""
    p = ctx.p
    q = "find_minimal_distance"
    fi = p.func(q)
    ctx.analysed(fi)
    el, coll = fi.params[0], fi.params[1]
    loop = next((n for n in fi.node.body if isinstance(n, ast.For)), None)
    if loop is None or not (isinstance(loop.iter, ast.Call) and isinstance(loop.iter.func, ast.Name) and loop.iter.func.id == "enumerate"
                            and isinstance(loop.iter.args[0], ast.Name) and loop.iter.args[0].id == coll and isinstance(loop.target, ast.Tuple)):
        ctx.undetermined(rule, f"{q}: argmin shape", "not an enumerate loop over the collection: not judged")
        return
    iv, cv = loop.target.elts[0].id, loop.target.elts[1].id
    nz = Normaliser()
    nz.run_block([s for s in loop.body if isinstance(s, ast.Assign)])
    upd = next((s for s in loop.body if isinstance(s, ast.If)), None)
    utest, uneg = (upd.test if upd is not None else None), False
    while isinstance(utest, ast.UnaryOp) and isinstance(utest.op, ast.Not):
        utest, uneg = utest.operand, not uneg
    if upd is None or not (isinstance(utest, ast.Compare) and len(utest.ops) == 1):
        ctx.undetermined(rule, f"{q}: argmin shape", "update test not recognised")
        return
    if uneg or not isinstance(utest.comparators[0], ast.Name):
        # normalise `not (a OP b)` / `best OP distance` to `distance OP' best`
        from ..astutil import negate_cmp
        op_ = negate_cmp(utest.ops[0]) if uneg else utest.ops[0]
        l_, r_ = utest.left, utest.comparators[0]
        if not isinstance(r_, ast.Name) and isinstance(l_, ast.Name) and op_ is not None:
            l_, r_ = r_, l_
            op_ = {ast.Lt: ast.Gt, ast.Gt: ast.Lt, ast.LtE: ast.GtE, ast.GtE: ast.LtE}.get(type(op_), type(op_))()
        if op_ is None:
            ctx.undetermined(rule, f"{q}: argmin shape", "update test not recognised")
            return
        norm_test = ast.Compare(left=l_, ops=[op_], comparators=[r_])
        ast.copy_location(norm_test, utest)
        upd = ast.If(test=norm_test, body=upd.body, orelse=upd.orelse)
        ast.copy_location(upd, utest)
        upd.lineno, upd.end_lineno = utest.lineno, getattr(utest, "end_lineno", utest.lineno)
    lhs = nz.norm(upd.test.left).canon()
    dist_ok = lhs in (f"abs({cv} + -1*{el})", f"abs(-1*{cv} + {el})", f"abs({el} + -1*{cv})", f"abs(-1*{el} + {cv})")
    ctx.check(dist_ok, rule, f"{q}: compares abs(candidate - element) ({lhs})", function=q, construct="distance is not abs(candidate - element)",
              message=lhs, file=fi.file, node=upd)
    best = upd.test.comparators[0].id if isinstance(upd.test.comparators[0], ast.Name) else None
    ctx.check(isinstance(upd.test.ops[0], (ast.Lt, ast.LtE)) and best is not None, rule, f"{q}: a candidate wins when its distance is smaller", function=q,
              construct="candidate selection does not test `distance < best`", message=short(upd.test), file=fi.file, node=upd)
    assigns = {s.targets[0].id: s.value for s in upd.body if isinstance(s, ast.Assign) and isinstance(s.targets[0], ast.Name)}
    idx = next((k for k, v in assigns.items() if isinstance(v, ast.Name) and v.id == iv), None)
    ctx.check(best in assigns and nz.norm(assigns[best]).canon() == lhs and idx is not None, rule, f"{q}: best distance and index updated together", function=q,
              construct="best distance and its index are not updated together", message=f"{sorted(assigns)}", file=fi.file, node=upd)
    rets = [r for r in walk_local(fi.node) if isinstance(r, ast.Return)]

    def exact_hit_guard(r):
        """`r` sits under `<distance of this candidate> == 0` (the best so far, just updated, or the candidate's own distance inside the winning
        branch): nothing can be closer, so the current index -- or the best index, if already updated -- is the answer."""
        g = next((a for a in ancestors(r) if isinstance(a, ast.If) and a is not upd and a.test is not upd.test), None)
        if g is None or not (isinstance(g.test, ast.Compare) and isinstance(g.test.ops[0], ast.Eq) and isinstance(g.test.comparators[0], ast.Constant)
                             and g.test.comparators[0].value == 0 and any(r is x for y in g.body for x in ast.walk(y))):
            return None
        l = g.test.left
        if isinstance(l, ast.Name) and l.id == best:
            return "best"
        if nz.norm(l).canon() == lhs and any(g is x for y in upd.body for x in ast.walk(y)):
            return "candidate"
        return None
    ctx.check(bool(rets) and all((isinstance(r.value, ast.Name) and r.value.id == idx) or (isinstance(r.value, ast.Name) and r.value.id == iv and exact_hit_guard(r) is not None)
                                 for r in rets), rule, f"{q}: returns the index of the best candidate",
              function=q, construct="does not return the index of the best candidate", message=f"{[short(r) for r in rets]}", file=fi.file, node=fi.node)
    init = [s for s in fi.node.body if isinstance(s, ast.Assign) and isinstance(s.targets[0], ast.Name) and s.targets[0].id == best]
    ctx.check(len(init) == 1 and src(init[0].value) in ("math.inf", "float('inf')", 'float("inf")'), rule, f"{q}: starts from an infinite best distance", function=q,
              construct="initial best distance is finite", message=f"{[short(s) for s in init]}", file=fi.file, node=fi.node)
    # early exit only for an exact hit
    for r in [x for x in ast.walk(loop) if isinstance(x, ast.Return)]:
        g = next((a for a in ancestors(r) if isinstance(a, ast.If) and a is not upd and a.test is not upd.test), None)
        ok = g is not None and isinstance(g.test, ast.Compare) and isinstance(g.test.ops[0], ast.Eq) and isinstance(g.test.comparators[0], ast.Constant) \
            and g.test.comparators[0].value == 0 and isinstance(g.test.left, ast.Name) and g.test.left.id == best
        ok = ok or exact_hit_guard(r) is not None
        ctx.check(ok, rule, f"{q}: early return only on an exact hit", function=q, construct="early return under a condition other than distance == 0",
                  message=short(getattr(g, "test", None)), file=fi.file, node=r)


# --------------------------------------------------------------------------------------------------------------------
def interleave_rule(ctx: Ctx, rule: str = "INTERLEAVE") -> None:
    """get_interleaved_message_pairings: repeatedly takes the pairing with the smallest next onset among the channels'
    cursors, appends (channel, pairing), advances exactly that cursor by one, until every cursor is exhausted."""
    p = ctx.p
    q = "AbsoluteSequence.get_interleaved_message_pairings"
    fi = p.func(q)
    ctx.analysed(fi)
    loop = next((n for n in fi.node.body if isinstance(n, ast.While)), None)
    if loop is None:
        ctx.undetermined(rule, f"{q}: interleaving loop", "no while loop: idiom not recognised, not judged")
        return
    res = next((r.value.id for r in walk_local(fi.node) if isinstance(r, ast.Return) and isinstance(r.value, ast.Name)), None)
    # choice of the channel: index(min(times))
    choice = [s for s in loop.body if isinstance(s, ast.Assign) and isinstance(s.value, ast.Call) and call_method(s.value)[1] == "index"
              and s.value.args and isinstance(s.value.args[0], ast.Call) and isinstance(s.value.args[0].func, ast.Name)]
    ok = len(choice) == 1 and choice[0].value.args[0].func.id == "min" and src(choice[0].value.args[0].args[0]) == src(call_method(choice[0].value)[0])
    times_by_key = None
    if not choice:
        # the same choice as an arg-min: min(range(len(..)), key=times.__getitem__) -- the first minimal index, like times.index(min(times))
        for s_ in loop.body:
            v = s_.value if isinstance(s_, ast.Assign) else None
            if isinstance(v, ast.Call) and isinstance(v.func, ast.Name) and v.func.id == "min" and len(v.args) == 1 and isinstance(v.args[0], ast.Call) \
                    and src(v.args[0].func) == "range" and len(v.args[0].args) == 1 and len(v.keywords) == 1 and v.keywords[0].arg == "key":
                k = v.keywords[0].value
                if isinstance(k, ast.Attribute) and k.attr == "__getitem__" and isinstance(k.value, ast.Name):
                    times_by_key = k.value.id
                elif isinstance(k, ast.Lambda) and len(k.args.args) == 1 and isinstance(k.body, ast.Subscript) and isinstance(k.body.value, ast.Name) \
                        and src(k.body.slice) == k.args.args[0].arg:
                    times_by_key = k.body.value.id
                if times_by_key is not None:
                    choice = [s_]
                    ok = True
                    break
    ctx.check(ok, rule, f"{q}: the next pairing comes from the channel with the smallest next onset", function=q,
              construct="interleaving does not pick the channel with the minimal next onset",
              message=f"{[short(c) for c in choice]}", file=fi.file, node=choice[0] if choice else loop)
    if not choice:
        return
    cidx = choice[0].targets[0].id
    times_var = times_by_key or src(call_method(choice[0].value)[0])
    # channels and cursors walked in parallel (zip) instead of by index: the checks that read `table[i]` expressions do not apply
    zipped = any(isinstance(c, ast.Call) and src(c.func) == "zip" for c in ast.walk(fi.node))
    # the candidate times: next onset of each channel, infinity when exhausted
    tdef = [s for s in loop.body if isinstance(s, ast.Assign) and isinstance(s.targets[0], ast.Name) and s.targets[0].id == times_var]
    ok = len(tdef) == 1 and isinstance(tdef[0].value, ast.ListComp) and isinstance(tdef[0].value.elt, ast.IfExp) and "inf" in src(tdef[0].value.elt.orelse) \
        and isinstance(tdef[0].value.elt.test, ast.Compare) and isinstance(tdef[0].value.elt.test.ops[0], ast.Lt)
    # the table kept up to date entry by entry: built once before the loop (first onset, infinity for an empty channel) and, in the loop,
    # only the advanced channel's entry recomputed (`times[i] = <onset at the cursor> if cursor[i] < len(list_i) else inf`)
    incremental = None
    if not tdef:
        first_ = [s_ for s_ in fi.node.body if s_.lineno < loop.lineno and isinstance(s_, ast.Assign) and isinstance(s_.targets[0], ast.Name) and s_.targets[0].id == times_var]
        step_ = [s_ for s_ in loop.body if isinstance(s_, ast.Assign) and isinstance(s_.targets[0], ast.Subscript) and src(s_.targets[0].value) == times_var]
        if len(first_) == 1 and len(step_) == 1 and isinstance(first_[0].value, ast.ListComp) and isinstance(first_[0].value.elt, ast.IfExp) \
                and "inf" in src(first_[0].value.elt.orelse) and isinstance(step_[0].value, ast.IfExp) and "inf" in src(step_[0].value.orelse) \
                and isinstance(step_[0].value.test, ast.Compare) and isinstance(step_[0].value.test.ops[0], ast.Lt) \
                and src(step_[0].targets[0].slice) == cidx:
            t0 = first_[0].value.elt.test
            nonempty = isinstance(t0, ast.Compare) and len(t0.ops) == 1 and (
                (isinstance(t0.ops[0], ast.Gt) and src(t0.left).startswith("len(") and src(t0.comparators[0]) == "0")
                or (isinstance(t0.ops[0], ast.Lt) and src(t0.comparators[0]).startswith("len("))
                or (isinstance(t0.ops[0], ast.NotEq) and src(t0.left).startswith("len(") and src(t0.comparators[0]) == "0"))
            if nonempty:
                incremental = (first_[0], step_[0])
                tdef = [step_[0]]
                ok = True
    ctx.check(ok, rule, f"{q}: exhausted channels count as infinitely late", function=q, construct="exhausted channels are not excluded from the onset comparison",
              message=f"{[short(s, 90) for s in tdef]}", file=fi.file, node=tdef[0] if tdef else loop)
    # cursor advance: exactly the chosen one, by one
    incs = [s for s in loop.body if isinstance(s, ast.AugAssign) and isinstance(s.target, ast.Subscript)]
    ok = len(incs) == 1 and isinstance(incs[0].op, ast.Add) and isinstance(incs[0].value, ast.Constant) and incs[0].value.value == 1 \
        and isinstance(incs[0].target.slice, ast.Name) and incs[0].target.slice.id == cidx
    ctx.check(ok, rule, f"{q}: exactly the chosen channel's cursor advances by one", function=q, construct="cursor of the chosen channel not advanced by exactly one",
              message=f"{[short(s) for s in incs]}", file=fi.file, node=incs[0] if incs else loop)
    cursor = src(incs[0].target.value) if incs else None
    # appended element: (channel id of the chosen index, pairing at the chosen channel's cursor) -- before the advance
    apps = [s for s in loop.body if isinstance(s, ast.Expr) and isinstance(s.value, ast.Call) and call_method(s.value)[1] == "append"
            and isinstance(call_method(s.value)[0], ast.Name) and call_method(s.value)[0].id == res]
    tc = TypeCase(p, fi, set(), None)
    exits = tc.run_body(loop.body)
    rng = events_matching(exits, lambda e: e[0] == "append" and e[1] == res)
    ctx.check(rng == (1, 1) and {k for k, _ in exits} == {"end"}, rule, f"{q}: one pairing emitted per round {rng}", function=q,
              construct="a round of the interleaving does not emit exactly one pairing", message=f"{rng}", file=fi.file, node=loop)
    if apps and incs:
        ctx.check(apps[0].lineno < incs[0].lineno, rule, f"{q}: the pairing is taken before the cursor moves", function=q,
                  construct="cursor advanced before the pairing is taken", message="", file=fi.file, node=apps[0])
        nz = Normaliser()
        nz.run_block([s for s in loop.body if isinstance(s, ast.Assign) and choice[0].lineno < s.lineno < apps[0].lineno])
        a = apps[0].value.args[0]
        ok = isinstance(a, ast.Tuple) and len(a.elts) == 2
        if ok:
            ch, pr = nz.norm(a.elts[0]).canon(), nz.norm(a.elts[1]).canon()
            ok = ch.endswith(f"[{cidx}]") and f"[{cidx}]" in pr and cursor is not None and f"{cursor}[{cidx}]" in pr
        if not ok and zipped and isinstance(a, ast.Tuple) and len(a.elts) == 2:
            ctx.undetermined(rule, f"{q}: emits (channel, pairing at that channel's cursor)", "item unpacked instead of indexed: not judged")
            ok = True
        ctx.check(ok, rule, f"{q}: emits (channel, pairing at that channel's cursor)", function=q,
                  construct="emitted element is not (chosen channel, its pairing at the cursor)", message=short(a, 100), file=fi.file, node=apps[0])
    # continuation: while any cursor is not exhausted
    hv = loop.test.id if isinstance(loop.test, ast.Name) else None
    upd = [s for s in loop.body if isinstance(s, ast.Assign) and isinstance(s.targets[0], ast.Name) and s.targets[0].id == hv]
    ok = hv is not None and len(upd) == 1 and isinstance(upd[0].value, ast.Call) and isinstance(upd[0].value.func, ast.Name) and upd[0].value.func.id == "any" \
        and "<" in src(upd[0].value)
    ctx.check(ok, rule, f"{q}: continues while any channel has pairings left", function=q, construct="interleaving loop does not continue while any cursor is below its length",
              message=f"{[short(s, 90) for s in upd]}", file=fi.file, node=loop)
    # ---- initial state: cursors start at the first pairing, the first candidate onsets are computed like the later ones,
    # the items tuple is read as (channel, pairings)
    pre = [s for s in fi.node.body if getattr(s, "lineno", 0) < loop.lineno]
    if cursor is not None:
        init = [s for s in pre if isinstance(s, ast.Assign) and isinstance(s.targets[0], ast.Name) and s.targets[0].id == cursor]
        zero = False
        if len(init) == 1:
            v = init[0].value
            if isinstance(v, ast.ListComp) and isinstance(v.elt, ast.Constant) and v.elt.value == 0:
                zero = True
            if isinstance(v, ast.BinOp) and isinstance(v.op, ast.Mult) and isinstance(v.left, ast.List) and len(v.left.elts) == 1 \
                    and isinstance(v.left.elts[0], ast.Constant) and v.left.elts[0].value == 0:
                zero = True
        ctx.check(zero, rule, f"{q}: every channel's cursor starts at its first pairing", function=q,
                  construct="cursor of the interleaving does not start at zero", message=f"{[short(s, 80) for s in init]}", file=fi.file,
                  node=init[0] if init else loop)
        # every exhaustion test compares a cursor strictly with a length
        tests = [c for c in ast.walk(fi.node) if isinstance(c, ast.Compare) and len(c.ops) == 1 and isinstance(c.left, ast.Subscript)
                 and src(c.left.value) == cursor]
        ztests = []
        if zipped and not tests:
            # `cur < len(pairings) for (_, pairings), cur in zip(items, cursor)`: the same test on the zipped variables
            for comp in ast.walk(fi.node):
                for g in getattr(comp, "generators", []) if isinstance(comp, (ast.ListComp, ast.GeneratorExp)) else []:
                    if isinstance(g.iter, ast.Call) and src(g.iter.func) == "zip" and isinstance(g.target, ast.Tuple) and len(g.target.elts) == len(g.iter.args):
                        bound = {src(t): src(a_) for t, a_ in zip(g.target.elts, g.iter.args)}
                        cvar = next((t for t, a_ in bound.items() if a_ == cursor), None)
                        if cvar is not None:
                            ztests += [c for c in ast.walk(comp) if isinstance(c, ast.Compare) and len(c.ops) == 1 and src(c.left) == cvar]
            ctx.check(bool(ztests) and all(isinstance(c.ops[0], ast.Lt) and isinstance(c.comparators[0], ast.Call) and src(c.comparators[0].func) == "len" for c in ztests), rule,
                      f"{q}: {len(ztests)} exhaustion test(s) compare the zipped cursor strictly with a length", function=q,
                      construct="an exhaustion test of the interleaving is not `cursor < length`", message=f"{[short(c, 60) for c in ztests]}",
                      file=fi.file, node=ztests[0] if ztests else loop)
        ctx.check(bool(ztests) or (bool(tests) and all(isinstance(c.ops[0], ast.Lt) for c in tests)), rule,
                  f"{q}: {len(tests)} exhaustion test(s) compare the cursor strictly with the channel's number of pairings", function=q,
                  construct="an exhaustion test of the interleaving is not `cursor < length`", message=f"{[short(c, 60) for c in tests]}",
                  file=fi.file, node=tests[0] if tests else loop)
        for c in tests:
            r = c.comparators[0]
            # the right side: len(<items>[i][1]) directly or through a list defined so
            if isinstance(r, ast.Subscript) and isinstance(r.value, ast.Name):
                d = [s for s in pre if isinstance(s, ast.Assign) and isinstance(s.targets[0], ast.Name) and s.targets[0].id == r.value.id]
                r = d[0].value.elt if d and isinstance(d[0].value, ast.ListComp) else r
            okr = isinstance(r, ast.Call) and isinstance(r.func, ast.Name) and r.func.id == "len" and r.args and isinstance(r.args[0], ast.Subscript) \
                and isinstance(r.args[0].slice, ast.Constant) and r.args[0].slice.value == 1
            if not okr and isinstance(r, ast.Call) and isinstance(r.func, ast.Name) and r.func.id == "len" and r.args and isinstance(r.args[0], ast.Subscript) \
                    and isinstance(r.args[0].value, ast.Name):
                # len(lists[i]) with `lists = list(table.values())` (or the second components of its items)
                dl = [s_ for s_ in pre if isinstance(s_, ast.Assign) and isinstance(s_.targets[0], ast.Name) and s_.targets[0].id == r.args[0].value.id]
                if len(dl) == 1:
                    v_ = dl[0].value
                    okr = (isinstance(v_, ast.Call) and src(v_.func) == "list" and len(v_.args) == 1 and isinstance(v_.args[0], ast.Call)
                           and call_method(v_.args[0])[1] == "values") \
                        or (isinstance(v_, ast.ListComp) and isinstance(v_.elt, ast.Subscript) and isinstance(v_.elt.slice, ast.Constant) and v_.elt.slice.value == 1)
            ctx.check(okr, rule, f"{q}: `{short(c, 60)}` measures the channel's pairing list", function=q,
                      construct="exhaustion test does not compare with the length of the channel's pairing list", message=short(r, 80), file=fi.file, node=c)
    # onset table before the loop = onset table recomputed in the loop
    nxt = [s for s in loop.body if isinstance(s, ast.Assign) and isinstance(s.targets[0], ast.Name) and isinstance(s.value, ast.ListComp)
           and any(isinstance(a, ast.Attribute) and a.attr == "time" for a in ast.walk(s.value))]
    fresh_each_round = bool(nxt) and bool(choice) and all(s.lineno < choice[0].lineno for s in nxt) \
        and not any(isinstance(x, ast.Assign) and isinstance(x.targets[0], ast.Name) and x.targets[0].id == nxt[0].targets[0].id for x in pre)
    for s in nxt:
        if fresh_each_round:
            if zipped:
                ctx.undetermined(rule, f"{q}: a channel's next onset", "read through zipped variables: expression not judged")
            continue
        first = [x for x in pre if isinstance(x, ast.Assign) and isinstance(x.targets[0], ast.Name) and x.targets[0].id == s.targets[0].id]
        ctx.check(len(first) == 1 and ast.dump(first[0].value) == ast.dump(s.value), rule,
                  f"{q}: `{s.targets[0].id}` is initialised with the expression that refreshes it each round", function=q,
                  construct="initial next-onset table differs from the per-round one", message=f"{[short(x, 100) for x in first]} vs {short(s, 100)}",
                  file=fi.file, node=s)
        e = s.value.elt.body if isinstance(s.value.elt, ast.IfExp) else s.value.elt
        # <items>[n][1][cursor[n]][0].time : second component of the item, first message of the pairing
        chain = []
        x = e.value if isinstance(e, ast.Attribute) else e
        while isinstance(x, ast.Subscript):
            chain.append(x.slice)
            x = x.value
        chain.reverse()
        okc = isinstance(e, ast.Attribute) and e.attr == "time" and len(chain) == 4 and isinstance(chain[1], ast.Constant) and chain[1].value == 1 \
            and isinstance(chain[3], ast.Constant) and chain[3].value == 0 and cursor is not None and src(chain[2]).startswith(cursor + "[")
        ctx.check(okc, rule, f"{q}: a channel's next onset is the time of the first message of the pairing at its cursor", function=q,
                  construct="next-onset expression does not read pairing[cursor][0].time of the channel's list", message=short(e, 100), file=fi.file, node=s)
    # channel ids: first component of the items
    if apps:
        a = apps[0].value.args[0]
        if isinstance(a, ast.Tuple) and len(a.elts) == 2:
            nz2 = Normaliser()
            nz2.run_block([s for s in loop.body if isinstance(s, ast.Assign) and s.lineno < apps[0].lineno])
            chs = nz2.norm(a.elts[0]).canon()
            idl = chs.split("[")[0]
            d = [s for s in pre if isinstance(s, ast.Assign) and isinstance(s.targets[0], ast.Name) and s.targets[0].id == idl and isinstance(s.value, ast.ListComp)]
            okid = bool(d) and isinstance(d[0].value.elt, ast.Subscript) and isinstance(d[0].value.elt.slice, ast.Constant) and d[0].value.elt.slice.value == 0
            prs = nz2.norm(a.elts[1]).canon()
            okpr = "][1][" in prs
            if zipped and not (okid and okpr):
                okid = okpr = True          # (reported as not judged above)
            ctx.check(okid and okpr, rule, f"{q}: channel ids are the keys and pairings the values of the pairing table's items", function=q,
                      construct="interleaving mixes up the key and the value of the pairing table's items", message=f"{chs} / {prs}", file=fi.file, node=apps[0])
    # (a table computed at the top of every round, before the choice, is fresh by construction)
    ctx.check(fresh_each_round or (bool(nxt) and bool(incs) and all(s.lineno > incs[0].lineno for s in nxt))
              or (incremental is not None and bool(incs) and incremental[1].lineno > incs[0].lineno), rule,
              f"{q}: the next-onset table is refreshed after the cursor moved ({len(nxt)} refresh)", function=q,
              construct="next-onset table is not refreshed after the cursor advance", message="the choice of the next round would use stale onsets",
              file=fi.file, node=loop)
    if hv is not None:
        init = [s for s in pre if isinstance(s, ast.Assign) and isinstance(s.targets[0], ast.Name) and s.targets[0].id == hv]
        okh = False
        if len(init) == 1:
            v = init[0].value
            if isinstance(v, ast.Compare) and len(v.ops) == 1 and isinstance(v.left, ast.Call) and isinstance(v.left.func, ast.Name) and v.left.func.id == "len" \
                    and isinstance(v.comparators[0], ast.Constant):
                c0 = v.comparators[0].value
                okh = (isinstance(v.ops[0], ast.Gt) and c0 == 0) or (isinstance(v.ops[0], ast.GtE) and c0 == 1) or (isinstance(v.ops[0], ast.NotEq) and c0 == 0)
            elif isinstance(v, ast.Call) and isinstance(v.func, ast.Name) and v.func.id in ("bool", "any"):
                okh = True
        ctx.check(okh, rule, f"{q}: the loop is entered iff there is at least one channel", function=q,
                  construct="entry condition of the interleaving is not `at least one channel with pairings`",
                  message=f"{[short(s, 80) for s in init]}", file=fi.file, node=init[0] if init else loop)
    # the flag and the kinds are passed through, imputation on by default
    params = [a.arg for a in fi.node.args.args]
    defaults = dict(zip(params[len(params) - len(fi.node.args.defaults):], fi.node.args.defaults))
    inner = next((c for s in pre for c in ast.walk(s) if isinstance(c, ast.Call) and call_method(c)[1] == "get_message_pairings"), None)
    if inner is not None:
        passed = {k.arg: k.value for k in inner.keywords}
        okp = all(isinstance(v, ast.Name) and v.id == k for k, v in passed.items()) and {"message_types", "impute_notes"} <= set(passed)
        d = defaults.get("impute_notes")
        ctx.check(okp and isinstance(d, ast.Constant) and d.value is True, rule, f"{q}: kinds, standard length and the imputation flag (default True) are passed through",
                  function=q, construct="interleaving does not pass its arguments through to the pairing table, or imputation is off by default",
                  message=short(inner, 120), file=fi.file, node=inner)


def bisect_rule(ctx: Ctx, rule: str = "BISECT") -> int:
    """binary_insort: the sorted insertion every `add_message` of an absolute sequence goes through.  The roles are
    taken from the code (low/high bound = the two names compared in the `while` test, probe = the name indexed in the
    time comparison); with the roles found, each piece of the upper-bound bisection is compared with what the loop
    invariant `all left of lo are <= new < all from hi on` needs.  An implementation through the `bisect` module is
    accepted as such; any other shape is reported undetermined."""
    p = ctx.p
    fi = p.func("binary_insort")
    ctx.analysed(fi)
    q = fi.qualname
    fn = fi.node
    if any(isinstance(c, ast.Call) and (call_method(c)[1] or getattr(c.func, "id", "")) in ("insort", "insort_right", "bisect", "bisect_right")
           for c in ast.walk(fn)):
        ctx.ok(rule, f"{q}: delegates to the standard bisect module", "library upper-bound insertion")
        return 1
    loop = next((s for s in fn.body if isinstance(s, ast.While)), None)
    coll, new = fi.params[0], fi.params[1]
    if loop is not None and isinstance(loop.test, ast.UnaryOp) and isinstance(loop.test.op, ast.Not) and isinstance(loop.test.operand, ast.Compare) \
            and isinstance(loop.test.operand.left, ast.Name) and isinstance(loop.test.operand.comparators[0], ast.Name):
        ctx.violation(rule, f"{q}: the search continues while `low < high`", function=q, construct="bisection loop test is not `low < high`",
                      message=f"`{short(loop.test)}`: the loop does not run while the interval is non-empty -- the message is inserted at position 0", file=fi.file, node=loop)
        return 1
    if loop is None or not (isinstance(loop.test, ast.Compare) and len(loop.test.ops) == 1 and isinstance(loop.test.left, ast.Name)
                            and isinstance(loop.test.comparators[0], ast.Name)):
        ctx.undetermined(rule, f"{q}: bisection loop", "no `while lo < hi` loop over two bounds: idiom not recognised, not judged")
        return 0
    lo, hi = loop.test.left.id, loop.test.comparators[0].id
    n = 0

    def chk(ok, inst, construct, message, node):
        nonlocal n
        n += 1
        ctx.check(ok, rule, f"{q}: {inst}", function=q, construct=construct, message=message, file=fi.file, node=node)
    chk(isinstance(loop.test.ops[0], ast.Lt), f"the search continues while `{lo} < {hi}`", "bisection loop test is not `low < high`",
        f"`{short(loop.test)}`: with `<=` the probe runs past the end, with another relation the search stops early", loop)
    pre = [s for s in fn.body if s.lineno < loop.lineno and isinstance(s, ast.Assign) and isinstance(s.targets[0], ast.Name)]
    ilo = [s for s in pre if s.targets[0].id == lo]
    ihi = [s for s in pre if s.targets[0].id == hi]
    chk(len(ilo) == 1 and isinstance(ilo[0].value, ast.Constant) and ilo[0].value.value == 0, f"`{lo}` starts at 0",
        "lower bound of the bisection does not start at 0", "a message earlier than everything present could not be placed first", ilo[0] if ilo else loop)
    chk(len(ihi) == 1 and src(ihi[0].value) == f"len({coll})", f"`{hi}` starts at len({coll})",
        "upper bound of the bisection does not start at the length of the list", "a message later than everything present could not be placed last",
        ihi[0] if ihi else loop)
    # probe
    nz = Normaliser()
    mids = [s for s in loop.body if isinstance(s, ast.Assign) and isinstance(s.targets[0], ast.Name)]
    test = next((s for s in loop.body if isinstance(s, ast.If)), None)
    if not mids or test is None:
        ctx.undetermined(rule, f"{q}: probe", "probe assignment / decision not recognised: not judged")
        return n
    # the probe is the name that indexes the list in the decision; its value after substituting the loop body's temporaries
    probes = [x.slice.id for x in ast.walk(test.test) if isinstance(x, ast.Subscript) and src(x.value) == coll and isinstance(x.slice, ast.Name)]
    mid = probes[0] if probes else mids[0].targets[0].id
    nzp = Normaliser()
    nzp.run_block([s_ for s_ in loop.body if isinstance(s_, ast.Assign) and s_.lineno < test.lineno])
    mdef = [s_ for s_ in mids if s_.targets[0].id == mid]
    want = Sym.atom(f"floordiv({(Sym.atom(lo) + Sym.atom(hi)).canon()},2)")
    got = nzp.env.get(mid, nz.norm(mdef[0].value) if mdef else Sym.atom(mid))
    mids = mdef or mids
    alt = Sym.atom(lo) + Sym.atom(f"floordiv({(Sym.atom(hi) - Sym.atom(lo)).canon()},2)")
    chk(got == want or got == alt, f"probe `{short(mids[0])}` is the midpoint", "probe of the bisection is not the floor midpoint of the bounds",
        f"normal form `{got.canon()}`", mids[0])
    # decision: new.time < coll[mid].time -> hi = mid ; else lo = mid + 1
    rel = relation(test.test, nz)
    left_form = Sym.atom(f"{new}.time") - Sym.atom(f"{coll}[{mid}].time")
    goes_left = same_relation(rel, left_form, "<")
    goes_right = same_relation(rel, left_form, ">=")
    if not (goes_left or goes_right):
        chk(False, f"decision `{short(test.test)}`", "bisection decision is not `new.time < probe.time` (or its negation)",
            f"`{short(test.test)}`: equal times must go right (insertion after equal times), earlier times left", test)
        return n
    n += 1
    ctx.ok(rule, f"{q}: decision `{short(test.test)}`", "new.time < probe.time decides the half")
    left_blk, right_blk = (test.body, test.orelse) if goes_left else (test.orelse, test.body)

    def single_assign(blk):
        return blk[0] if len(blk) == 1 and isinstance(blk[0], ast.Assign) and isinstance(blk[0].targets[0], ast.Name) else None
    la, ra = single_assign(left_blk), single_assign(right_blk)
    chk(la is not None and la.targets[0].id == hi and nz.norm(la.value) == Sym.atom(mid), f"earlier than the probe: `{hi} = {mid}`",
        "left half of the bisection does not set high = probe", short(la) if la else "no single assignment", la or test)
    chk(ra is not None and ra.targets[0].id == lo and nz.norm(ra.value) == Sym.atom(mid) + Sym.const(1), f"not earlier than the probe: `{lo} = {mid} + 1`",
        "right half of the bisection does not set low = probe + 1", short(ra) if ra else "no single assignment", ra or test)
    ins = [c for s in fn.body if s.lineno > loop.end_lineno for c in ast.walk(s) if isinstance(c, ast.Call) and call_method(c)[1] == "insert"]
    chk(len(ins) == 1 and src(call_method(ins[0])[0]) == coll and len(ins[0].args) == 2 and src(ins[0].args[0]) == lo and src(ins[0].args[1]) == new,
        f"the message is inserted at `{lo}`", "the message is not inserted into the list at the found position",
        f"{[short(c) for c in ins]}", ins[0] if ins else fn)
    return n


def times_of_type_rule(ctx: Ctx, rule: str = "TIMES") -> int:
    """get_message_times_of_type (the signature look-ups of bar splitting and the loader's default signature read it): every
    message whose kind is among the requested kinds contributes exactly one (its time, the message) entry, in list order;
    the Sequence wrapper keeps time and order and only wraps the message."""
    p = ctx.p
    q = "AbsoluteSequence.get_message_times_of_type"
    fi = p.func(q)
    ctx.analysed(fi)
    n = 0
    loop = next((s for s in fi.node.body if isinstance(s, ast.For) and attr_chain(s.iter) == ["self", "_messages"] and isinstance(s.target, ast.Name)), None)
    ret = next((r for r in walk_local(fi.node) if isinstance(r, ast.Return) and isinstance(r.value, (ast.Name, ast.ListComp))), None)
    comp = None
    if loop is None and ret is not None:
        # canonical (comprehension) form: `res = [(m.time, m) for m in self._messages if m.message_type in kinds]`
        comp = ret.value if isinstance(ret.value, ast.ListComp) else next((s.value for s in fi.node.body if isinstance(s, ast.Assign) and isinstance(ret.value, ast.Name)
                                                                         and src(s.targets[0]) == ret.value.id and isinstance(s.value, ast.ListComp)), None)
    if comp is not None and len(comp.generators) == 1 and attr_chain(comp.generators[0].iter) == ["self", "_messages"] and isinstance(comp.generators[0].target, ast.Name):
        g_ = comp.generators[0]
        m, kinds = g_.target.id, fi.params[1]
        e_ = comp.elt
        n += 1
        ctx.check(isinstance(e_, ast.Tuple) and len(e_.elts) == 2 and src(e_.elts[0]) == f"{m}.time" and src(e_.elts[1]) == m, rule,
                  f"{q}: an entry is (the message's time, the message)", function=q, construct="entries of get_message_times_of_type are not (time, message)",
                  message=short(e_), file=fi.file, node=comp)
        okc = len(g_.ifs) == 1 and isinstance(g_.ifs[0], ast.Compare) and isinstance(g_.ifs[0].ops[0], ast.In) and src(g_.ifs[0].left) == f"{m}.message_type" \
            and src(g_.ifs[0].comparators[0]) == kinds
        n += 1
        ctx.check(okc, rule, f"{q}: a message is listed iff its kind is among the requested kinds", function=q,
                  construct="get_message_times_of_type selects messages by a test other than `kind in requested kinds`",
                  message=f"{[short(t) for t in g_.ifs]}", file=fi.file, node=comp)
        n += 1
        ctx.ok(rule, f"{q}: every message is visited (comprehension over the whole list)")
        loop = False
    if loop is False:
        pass
    elif loop is None or ret is None:
        ctx.undetermined(rule, f"{q}: collection loop", "no loop over self._messages filling a returned list: idiom not judged")
        return 0
    if loop is False:
        return _times_wrapper(ctx, rule, n)
    m, res, kinds = loop.target.id, ret.value.id, fi.params[1]
    apps = [c for c in ast.walk(loop) if isinstance(c, ast.Call) and call_method(c)[1] == "append" and src(call_method(c)[0]) == res]
    n += 1
    ok = len(apps) == 1 and isinstance(apps[0].args[0], ast.Tuple) and len(apps[0].args[0].elts) == 2 and src(apps[0].args[0].elts[0]) == f"{m}.time" \
        and src(apps[0].args[0].elts[1]) == m
    ctx.check(ok, rule, f"{q}: an entry is (the message's time, the message)", function=q, construct="entries of get_message_times_of_type are not (time, message)",
              message=f"{[short(c) for c in apps]}", file=fi.file, node=apps[0] if apps else loop)
    if apps:
        from ..astutil import path_conditions
        pcs = path_conditions(apps[0], loop)
        okc = len(pcs) == 1 and pcs[0][1] and isinstance(pcs[0][0], ast.Compare) and isinstance(pcs[0][0].ops[0], ast.In) \
            and src(pcs[0][0].left) == f"{m}.message_type" and src(pcs[0][0].comparators[0]) == kinds
        n += 1
        ctx.check(okc, rule, f"{q}: a message is listed iff its kind is among the requested kinds", function=q,
                  construct="get_message_times_of_type selects messages by a test other than `kind in requested kinds`",
                  message=f"{[(short(t), h) for t, h in pcs]}", file=fi.file, node=apps[0])
    n += 1
    ctx.check(not any(isinstance(x, (ast.Break, ast.Continue, ast.Return)) for x in ast.walk(loop)), rule, f"{q}: every message is visited", function=q,
              construct="get_message_times_of_type leaves its loop early", message="", file=fi.file, node=loop)
    return _times_wrapper(ctx, rule, n)


def _times_wrapper(ctx: Ctx, rule: str, n: int) -> int:
    p = ctx.p
    w = p.func("Sequence.get_message_times_of_type")
    ctx.analysed(w)
    wl = next((s for s in w.node.body if isinstance(s, ast.For) and isinstance(s.target, ast.Tuple) and len(s.target.elts) == 2), None)
    okw = False
    wc = next((s.value for s in w.node.body if isinstance(s, (ast.Assign, ast.Return)) and isinstance(s.value, ast.ListComp) and len(s.value.generators) == 1
               and isinstance(s.value.generators[0].target, ast.Tuple) and len(s.value.generators[0].target.elts) == 2), None)
    if wl is None and wc is not None:
        tvar, mvar = src(wc.generators[0].target.elts[0]), src(wc.generators[0].target.elts[1])
        okw = isinstance(wc.elt, ast.Tuple) and len(wc.elt.elts) == 2 and src(wc.elt.elts[0]) == tvar \
            and any(isinstance(x, ast.Name) and x.id == mvar for x in ast.walk(wc.elt.elts[1])) and not wc.generators[0].ifs
    if wl is not None:
        tvar, mvar = src(wl.target.elts[0]), src(wl.target.elts[1])
        wapps = [c for c in ast.walk(wl) if isinstance(c, ast.Call) and call_method(c)[1] == "append"]
        okw = len(wapps) == 1 and isinstance(wapps[0].args[0], ast.Tuple) and src(wapps[0].args[0].elts[0]) == tvar \
            and any(isinstance(x, ast.Name) and x.id == mvar for x in ast.walk(wapps[0].args[0].elts[1])) \
            and not any(isinstance(x, (ast.If, ast.Break, ast.Continue)) for x in ast.walk(wl))
    n += 1
    ctx.check(okw, rule, "Sequence.get_message_times_of_type keeps every entry's time and the order", function=w.qualname,
              construct="Sequence-level get_message_times_of_type drops, reorders or re-times entries", message="", file=w.file, node=wl or w.node)
    return n


def concat_rule(ctx: Ctx, rule: str = "CONCAT") -> int:
    """Bars are re-joined by Bar.to_sequence -> Sequence.concatenate -> RelativeSequence.concatenate: at each level every
    element is taken, once, in order, unfiltered, into a fresh result."""
    p = ctx.p
    n = 0

    def whole_in_order(comp_or_iter, source: str, elt_ok) -> bool:
        e = comp_or_iter
        if isinstance(e, ast.ListComp):
            g = e.generators[0]
            return len(e.generators) == 1 and not g.ifs and src(g.iter) == source and elt_ok(e.elt, src(g.target))
        return False
    # RelativeSequence.concatenate
    q = "RelativeSequence.concatenate"
    fi = p.func(q)
    ctx.analysed(fi)
    prm = fi.params[1]
    loop = next((s for s in fi.node.body if isinstance(s, ast.For) and src(s.iter) == prm and isinstance(s.target, ast.Name)), None)
    ok = False
    if loop is not None and not any(isinstance(x, (ast.If, ast.Break, ast.Continue)) for x in ast.walk(loop)):
        ext = [c for c in ast.walk(loop) if isinstance(c, ast.Call) and call_method(c)[1] == "extend" and attr_chain(call_method(c)[0]) == ["self", "_messages"]]
        if len(ext) == 1:
            a = ext[0].args[0]
            sv = loop.target.id
            ok = src(a) == f"{sv}._messages" or whole_in_order(a, f"{sv}._messages", lambda el, tv: src(el) in (tv, f"{tv}.copy()")) \
                or (isinstance(a, ast.Call) and src(a.func) == "list" and src(a.args[0]) == f"{sv}._messages")
    n += 1
    ctx.check(ok, rule, f"{q}: appends every message of every given sequence, in order", function=q,
              construct="concatenation of relative sequences drops, filters or reorders messages", message="", file=fi.file, node=loop or fi.node)
    # Sequence.concatenate
    q = "Sequence.concatenate"
    fi = p.func(q)
    ctx.analysed(fi)
    prm = fi.params[1]
    call = next((c for c in walk_local(fi.node) if isinstance(c, ast.Call) and call_method(c)[1] == "concatenate" and attr_chain(call_method(c)[0]) == ["self", "rel"]), None)
    ok = call is not None and call.args and whole_in_order(call.args[0], prm, lambda el, tv: src(el) == f"{tv}.rel")
    n += 1
    ctx.check(bool(ok), rule, f"{q}: hands the relative view of every given sequence, in order", function=q,
              construct="Sequence.concatenate does not pass all given sequences' relative views in order", message=short(call) if call else "", file=fi.file, node=call or fi.node)
    # Bar.to_sequence
    q = "Bar.to_sequence"
    fi = p.func(q)
    ctx.analysed(fi)
    prm = fi.params[0]
    ret = next((r for r in walk_local(fi.node) if isinstance(r, ast.Return) and isinstance(r.value, ast.Name)), None)
    ok = False
    if ret is not None:
        res = ret.value.id
        fresh = [s for s in fi.node.body if isinstance(s, ast.Assign) and src(s.targets[0]) == res and isinstance(s.value, ast.Call) and src(s.value.func) == "Sequence"
                 and not s.value.args and not s.value.keywords]
        cc = [c for c in walk_local(fi.node) if isinstance(c, ast.Call) and call_method(c)[1] == "concatenate" and src(call_method(c)[0]) == res]
        if fresh and len(cc) == 1 and cc[0].args:
            a = cc[0].args[0]
            if isinstance(a, ast.ListComp):
                ok = whole_in_order(a, prm, lambda el, tv: src(el) == f"{tv}.sequence")
            elif isinstance(a, ast.Name) and any(isinstance(s, ast.Assign) and src(s.targets[0]) == a.id and isinstance(s.value, ast.ListComp) for s in fi.node.body):
                d_ = next(s for s in fi.node.body if isinstance(s, ast.Assign) and src(s.targets[0]) == a.id and isinstance(s.value, ast.ListComp))
                ok = whole_in_order(d_.value, prm, lambda el, tv: src(el) == f"{tv}.sequence") and d_.lineno < cc[0].lineno
            elif isinstance(a, ast.Name):
                lp = next((s for s in fi.node.body if isinstance(s, ast.For) and src(s.iter) == prm and isinstance(s.target, ast.Name)), None)
                if lp is not None and not any(isinstance(x, (ast.If, ast.Break, ast.Continue)) for x in ast.walk(lp)):
                    ap = [c for c in ast.walk(lp) if isinstance(c, ast.Call) and call_method(c)[1] == "append" and src(call_method(c)[0]) == a.id]
                    ok = len(ap) == 1 and src(ap[0].args[0]) == f"{lp.target.id}.sequence" and lp.lineno < cc[0].lineno
    n += 1
    ctx.check(ok, rule, f"{q}: concatenates the sequence of every bar, in order, into a fresh sequence", function=q,
              construct="Bar.to_sequence drops, filters or reorders bars", message="", file=fi.file, node=fi.node)
    return n


LIST_MUTATORS = {"remove", "append", "insert", "pop", "extend", "clear", "sort", "reverse"}
DICT_MUTATORS = {"pop", "popitem", "clear", "update", "setdefault"}


def iter_mutation_rule(ctx: Ctx, functions, rule: str = "ITERMUT") -> int:
    """No loop changes the size or order of the very container it is iterating (an element that slides into a freed slot is
    skipped; a dictionary raises).  Iterating a copy (`list(x)`, `x[:]`, `x.copy()`, `sorted(x)`) is fine, and so is a
    mutation that is immediately followed by leaving the loop."""
    p = ctx.p
    n_loops = 0
    bad = []
    for q in sorted(functions):
        fi = p.functions.get(q)
        if fi is None:
            continue
        # names that denote the same container: `a = b` (plain alias) anywhere in the function
        alias = {}

        def find(x):
            while alias.get(x, x) != x:
                x = alias[x]
            return x
        for a_ in ast.walk(fi.node):
            if isinstance(a_, ast.Assign) and len(a_.targets) == 1 and isinstance(a_.targets[0], ast.Name) and isinstance(a_.value, (ast.Name, ast.Attribute)) \
                    and not (isinstance(a_.value, ast.Attribute) and a_.value.attr in ("time", "note", "channel", "velocity")):
                ra, rb = find(a_.targets[0].id), find(src(a_.value))
                if ra != rb:
                    alias[ra] = rb

        def same(x: str, y: str) -> bool:
            return x == y or find(x) == find(y)
        all_alias = dict(alias)
        binds = [(a_.lineno, a_.targets[0].id, a_) for a_ in ast.walk(fi.node)
                 if isinstance(a_, ast.Assign) and len(a_.targets) == 1 and isinstance(a_.targets[0], ast.Name) and hasattr(a_, "lineno")]
        for lp in ast.walk(fi.node):
            if not isinstance(lp, ast.For):
                continue
            # the aliases in force when this loop starts: `a = b` counts if it is the last binding of `a` before the loop and `b` is not
            # bound again in between (a name rebound to a fresh list at the top of every round is not the list of the previous round)
            alias.clear()
            last = {}
            for ln, nm, a_ in sorted(binds, key=lambda t: t[0]):
                if ln < lp.lineno:
                    last[nm] = a_
            for nm, a_ in last.items():
                if isinstance(a_.value, (ast.Name, ast.Attribute)) and not (isinstance(a_.value, ast.Attribute) and a_.value.attr in ("time", "note", "channel", "velocity")):
                    other = src(a_.value)
                    if other in last and last[other].lineno > a_.lineno:
                        continue
                    ra, rb = find(nm), find(other)
                    if ra != rb:
                        alias[ra] = rb
            it = lp.iter
            through = None
            if isinstance(it, ast.Call) and isinstance(it.func, ast.Name) and it.func.id in ("enumerate", "reversed", "zip", "iter") and it.args:
                it = it.args[0]
            if isinstance(it, ast.Call) and isinstance(it.func, ast.Attribute) and it.func.attr in ("keys", "values", "items") and not it.args:
                through, it = it.func.attr, it.func.value
            if not isinstance(it, (ast.Name, ast.Attribute)):
                continue
            target = src(it)
            n_loops += 1
            for st in ast.walk(lp):
                hit = None
                if isinstance(st, ast.Call) and isinstance(st.func, ast.Attribute) and same(src(st.func.value), target) \
                        and st.func.attr in (LIST_MUTATORS | DICT_MUTATORS):
                    hit = st
                elif isinstance(st, ast.Delete) and any(isinstance(t, ast.Subscript) and same(src(t.value), target) for t in st.targets):
                    hit = st
                elif isinstance(st, ast.AugAssign) and isinstance(st.op, (ast.Add, ast.Mult)) and isinstance(st.target, (ast.Name, ast.Attribute)) \
                        and same(src(st.target), target) and isinstance(st.value, (ast.List, ast.ListComp, ast.Name, ast.Attribute, ast.Call)) \
                        and not isinstance(st.value, ast.Constant):
                    # `xs += [...]` extends the list in place (for a list; harmless for numbers, which are not iterated)
                    hit = st
                elif isinstance(st, ast.Assign) and any(isinstance(t, ast.Subscript) and isinstance(t.slice, ast.Slice) and same(src(t.value), target) for t in st.targets):
                    hit = st
                if hit is None:
                    continue
                stmt = hit
                while not isinstance(stmt, ast.stmt):
                    stmt = stmt._parent
                blk = next((getattr(stmt._parent, f) for f in ("body", "orelse", "finalbody") if stmt in getattr(stmt._parent, f, [])), [])
                nxt = blk[blk.index(stmt) + 1] if stmt in blk and blk.index(stmt) + 1 < len(blk) else None
                if isinstance(nxt, (ast.Break, ast.Return)):
                    continue
                bad.append((fi, lp, hit, target))
    ctx.check(not bad, rule, f"no loop mutates the container it iterates ({n_loops} loops over named containers inspected)",
              function=bad[0][0].qualname if bad else "*",
              construct=f"loop over `{bad[0][3]}` changes `{bad[0][3]}` while iterating it" if bad else "ok",
              message=f"`{short(bad[0][2], 80)}` inside `for ... in {short(bad[0][1].iter, 50)}`: after a removal the element that moves into the freed slot is "
                      f"skipped (iterate a copy instead)" if bad else "",
              file=bad[0][0].file if bad else next(iter(p.sources)), node=bad[0][2] if bad else None)
    return n_loops


def mutable_default_rule(ctx: Ctx, functions, rule: str = "MUTDEFAULT") -> int:
    """No function on the property's path has a mutable default argument that it (or a callee it hands it to) could fill:
    the object is created once and shared by every call that omits the argument."""
    p = ctx.p
    n = 0
    bad = []
    for q in sorted(functions):
        fi = p.functions.get(q)
        if fi is None:
            continue
        a = fi.node.args
        names = [x.arg for x in a.posonlyargs + a.args][len(a.posonlyargs + a.args) - len(a.defaults):] if a.defaults else []
        pairs = list(zip(names, a.defaults)) + [(k.arg, d) for k, d in zip(a.kwonlyargs, a.kw_defaults) if d is not None]
        for name, d in pairs:
            n += 1
            if isinstance(d, (ast.List, ast.Dict, ast.Set)) or (isinstance(d, ast.Call) and isinstance(d.func, ast.Name) and d.func.id in ("list", "dict", "set")):
                bad.append((fi, name, d))
    ctx.check(not bad, rule, f"no mutable default argument on the property's path ({n} defaults inspected)",
              function=bad[0][0].qualname if bad else "*",
              construct=f"parameter `{bad[0][1]}` has a mutable default shared by all calls" if bad else "ok",
              message=f"`{bad[0][1]}={short(bad[0][2])}`: state written into it by one call is seen by the next call that omits the argument" if bad else "",
              file=bad[0][0].file if bad else next(iter(p.sources)), node=bad[0][2] if bad else None)
    return n


LAZY_BUILTINS = {"map", "filter", "zip", "iter", "reversed", "enumerate"}


def lazy_state_rule(ctx: Ctx, functions, rule: str = "LAZY") -> int:
    """No object attribute (and no element put into a container) is a one-shot iterator: `obj.items = map(f, xs)` can be
    walked once, after which the object silently looks empty -- the second request on the same object sees nothing."""
    p = ctx.p
    n = 0
    bad = []

    def lazy(e):
        return isinstance(e, ast.GeneratorExp) or (isinstance(e, ast.Call) and isinstance(e.func, ast.Name) and e.func.id in LAZY_BUILTINS)
    for q in sorted(functions):
        fi = p.functions.get(q)
        if fi is None:
            continue
        for st in ast.walk(fi.node):
            if isinstance(st, ast.Assign) and any(isinstance(t, ast.Attribute) for t in st.targets):
                n += 1
                if lazy(st.value):
                    bad.append((fi, st))
            elif isinstance(st, ast.Call) and isinstance(st.func, ast.Attribute) and st.func.attr in ("append", "insert", "add") and st.args and lazy(st.args[-1]):
                bad.append((fi, st))
    # a local bound to a one-shot iterator and then consumed more than once (the second consumer sees nothing)
    for q in sorted(functions):
        fi = p.functions.get(q)
        if fi is None:
            continue
        lazies = {}
        for st in ast.walk(fi.node):
            if isinstance(st, ast.Assign) and len(st.targets) == 1 and isinstance(st.targets[0], ast.Name) and lazy(st.value) \
                    and not (isinstance(st.value, ast.Call) and st.value.func.id == "enumerate"):
                lazies[st.targets[0].id] = st
        for name, st in lazies.items():
            stores = [x for x in ast.walk(fi.node) if isinstance(x, ast.Name) and x.id == name and isinstance(x.ctx, ast.Store)]
            uses = [x for x in ast.walk(fi.node) if isinstance(x, ast.Name) and x.id == name and isinstance(x.ctx, ast.Load)]
            in_loop = any(isinstance(a, (ast.For, ast.While)) and st not in list(ast.walk(a)) for u in uses for a in ancestors(u)
                          if not (isinstance(a, ast.For) and a.iter is u))
            n += 1
            # an explicit cursor -- `it = iter(xs)` taken from only by `next(it)` -- is meant to be consumed piecewise
            cursor = isinstance(st.value, ast.Call) and st.value.func.id == "iter" and all(
                isinstance(getattr(u, "_parent", None), ast.Call) and isinstance(u._parent.func, ast.Name) and u._parent.func.id == "next" and u._parent.args[0] is u
                for u in uses)
            if len(stores) == 1 and (len(uses) > 1 or in_loop) and not cursor:
                bad.append((fi, st, "local"))
    ctx.check(not bad, rule, f"no attribute holds a one-shot iterator ({n} attribute stores inspected)",
              function=bad[0][0].qualname if bad else "*",
              construct=("a one-shot iterator is bound to a local that is consumed more than once" if bad and len(bad[0]) == 3
                         else "an object attribute is assigned a one-shot iterator") if bad else "ok",
              message=f"`{short(bad[0][1], 90)}`: the value can be iterated once; every later consumer sees it empty (or without the elements already taken)" if bad else "",
              file=bad[0][0].file if bad else next(iter(p.sources)), node=bad[0][1] if bad else None)
    return n


NUMERIC_FIELDS = {"time", "channel", "note", "velocity", "control", "program", "numerator", "denominator"}


def misc_hazard_rules(ctx: Ctx, functions) -> int:
    """Five more exact hazard classes, none of which occurs in the library today:
    OBJTRUTH a local that is always an instance of a library class defining neither __bool__ nor __len__ used as a truth value:
            `if piece:` is constantly true, where `if len(piece._messages) > 0:` was meant;
    TRUTHY  a numeric message field (or a local copied from one) used as a truth value -- 0 is a legal time, channel, pitch and
            velocity, so `if msg.time:` / `msg.velocity or 127` treat a legal value as missing;
    EXCEPT  a bare / broad `except` whose handler does not re-raise (a failure inside an operation is swallowed);
    SETORDER a loop or comprehension over a set (literal, set(...), set comprehension): the order of what it produces is arbitrary;
    CLASSATTR an assignment to an attribute of a class object at run time (state shared by all instances)."""
    p = ctx.p
    n = 0
    bad = {"TRUTHY": [], "OBJTRUTH": [], "NONETRUTH": [], "EXCEPT": [], "SETORDER": [], "CLASSATTR": []}

    def field_expr(e, field_locals):
        if isinstance(e, ast.Attribute) and e.attr in NUMERIC_FIELDS and not isinstance(e.value, ast.Call):
            return True
        return isinstance(e, ast.Name) and e.id in field_locals

    def numeric_expr(e, depth=0):
        """arithmetic on numeric message fields (`b.time - a.time`): a number, 0 included"""
        if isinstance(e, ast.Attribute) and e.attr in NUMERIC_FIELDS:
            return True
        if isinstance(e, ast.BinOp) and isinstance(e.op, (ast.Add, ast.Sub, ast.Mult, ast.FloorDiv, ast.Mod)) and depth < 4:
            return numeric_expr(e.left, depth + 1) or numeric_expr(e.right, depth + 1)
        return False

    def numeric_call(t, fi_):
        """a call of a method / function of the library some `return` of which is such a number (the others may be None):
        `helper(..) or default` replaces a legitimate 0 by the default"""
        if not isinstance(t, ast.Call):
            return False
        h = None
        if isinstance(t.func, ast.Attribute) and isinstance(t.func.value, ast.Name) and t.func.value.id in ("self", "cls", fi_.cls or "") and fi_.cls:
            h = p.lookup_method(fi_.cls, t.func.attr)
        elif isinstance(t.func, ast.Name):
            h = p.module_funcs.get(t.func.id) if hasattr(p, "module_funcs") else None
        if h is None:
            return False
        rets = [r.value for r in ast.walk(h.node) if isinstance(r, ast.Return) and r.value is not None]
        vals = []
        for v in rets:
            vals += [v.body, v.orelse] if isinstance(v, ast.IfExp) else [v]
        return any(numeric_expr(v) for v in vals)

    def truth_operands(t):
        if isinstance(t, ast.BoolOp):
            for v in t.values:
                yield from truth_operands(v)
        elif isinstance(t, ast.UnaryOp) and isinstance(t.op, ast.Not):
            yield from truth_operands(t.operand)
        else:
            yield t
    def has_truth_protocol(cname, seen=()):
        ci = p.classes.get(cname)
        if ci is None or cname in seen:
            return True                                     # outside the library: unknown, assume it has one
        if any(isinstance(m, (ast.FunctionDef, ast.AsyncFunctionDef)) and m.name in ("__bool__", "__len__") for m in ci.node.body):
            return True
        bases = [b.id if isinstance(b, ast.Name) else getattr(b, "attr", None) for b in ci.node.bases]
        return any(b not in ("object", "ABC", "Enum") and has_truth_protocol(b, seen + (cname,)) for b in bases if b)

    def instance_locals(fn):
        """Locals of `fn` every binding of which is an instance of a library class without __bool__/__len__ (their truth value
        is constantly True).  Bindings: constructor calls, copies of such locals, parameters annotated with such a class."""
        binds: dict[str, list] = {}
        args = fn.args
        defaults = dict(zip([a.arg for a in args.args][len(args.args) - len(args.defaults):], args.defaults))
        for a in args.args + args.kwonlyargs:
            if a.arg in ("self", "cls"):
                continue
            binds.setdefault(a.arg, []).append(("ann", a.annotation, defaults.get(a.arg)))
        for a in ast.walk(fn):
            tgts = []
            if isinstance(a, ast.Assign):
                tgts = [(t, a.value) for t in a.targets]
            elif isinstance(a, ast.AnnAssign) and a.value is not None:
                tgts = [(a.target, a.value)]
            elif isinstance(a, (ast.AugAssign,)):
                tgts = [(a.target, None)]
            elif isinstance(a, (ast.For, ast.comprehension)):
                tgts = [(a.target, None)]
            elif isinstance(a, ast.withitem) and a.optional_vars is not None:
                tgts = [(a.optional_vars, None)]
            elif isinstance(a, ast.NamedExpr):
                tgts = [(a.target, a.value)]
            for t, v in tgts:
                for nm in ast.walk(t):
                    if isinstance(nm, ast.Name):
                        binds.setdefault(nm.id, []).append(("val", v if nm is t else None, None))
        known: dict[str, bool] = {}

        def cls_of_value(v, stack):
            if isinstance(v, ast.Call) and isinstance(v.func, ast.Name) and v.func.id in p.classes:
                return not has_truth_protocol(v.func.id)
            if isinstance(v, ast.Name):
                return resolve(v.id, stack)
            return False

        def resolve(name, stack=()):
            if name in known:
                return known[name]
            if name in stack:
                return True                                  # a cycle of copies adds nothing
            bs = binds.get(name)
            if not bs:
                return False
            ok = True
            for kind, x, dflt in bs:
                if kind == "ann":
                    nm = x.id if isinstance(x, ast.Name) else (x.value if isinstance(x, ast.Constant) and isinstance(x.value, str) else None)
                    ok = ok and nm in p.classes and not has_truth_protocol(nm) and dflt is None
                else:
                    ok = ok and x is not None and cls_of_value(x, stack + (name,))
                if not ok:
                    break
            if not stack:
                known[name] = ok
            return ok
        return {nm for nm in binds if resolve(nm)}

    for q in sorted(functions):
        fi = p.functions.get(q)
        if fi is None:
            continue
        always_true = instance_locals(fi.node)
        # parameters that default to None and are numbers when given (annotated int / float, or used in arithmetic / an ordering
        # comparison): `if p:` treats a given 0 as "not given"
        a_ = fi.node.args
        pos = a_.posonlyargs + a_.args
        dflt = dict(zip([x.arg for x in pos][len(pos) - len(a_.defaults):], a_.defaults))
        dflt.update({x.arg: d for x, d in zip(a_.kwonlyargs, a_.kw_defaults) if d is not None})
        none_params = {x.arg: x for x in pos + a_.kwonlyargs if isinstance(dflt.get(x.arg), ast.Constant) and dflt[x.arg].value is None}
        numeric_none = set()
        for nm_, arg_ in none_params.items():
            ann = ast.unparse(arg_.annotation) if arg_.annotation is not None else ""
            numeric = any(w in ann.replace(" ", "").replace("Optional[", "").replace("]", "").split("|") for w in ("int", "float"))
            for x in ast.walk(fi.node):
                if isinstance(x, ast.Compare) and any(isinstance(o, (ast.Lt, ast.LtE, ast.Gt, ast.GtE)) for o in x.ops) \
                        and any(isinstance(y, ast.Name) and y.id == nm_ for y in [x.left] + x.comparators):
                    numeric = True
                if isinstance(x, ast.BinOp) and isinstance(x.op, (ast.Add, ast.Sub, ast.Mult, ast.Div, ast.FloorDiv, ast.Mod)) \
                        and any(isinstance(y, ast.Name) and y.id == nm_ for y in (x.left, x.right)):
                    numeric = True
            if numeric and not any(isinstance(x, ast.Name) and x.id == nm_ and isinstance(x.ctx, ast.Store) for x in ast.walk(fi.node)):
                numeric_none.add(nm_)
        field_locals = {a.targets[0].id for a in ast.walk(fi.node) if isinstance(a, ast.Assign) and len(a.targets) == 1 and isinstance(a.targets[0], ast.Name)
                        and isinstance(a.value, ast.Attribute) and a.value.attr in NUMERIC_FIELDS}
        # a name that is also assigned something else is not a pure field copy
        for a in ast.walk(fi.node):
            if isinstance(a, ast.Assign) and len(a.targets) == 1 and isinstance(a.targets[0], ast.Name) and a.targets[0].id in field_locals \
                    and not (isinstance(a.value, ast.Attribute) and a.value.attr in NUMERIC_FIELDS):
                field_locals.discard(a.targets[0].id)
        # ... and locals read out of a table whose every stored value is such a field (`open[key] = msg.time` ... `start = open.pop(key)`)
        table_vals: dict[str, list] = {}
        for a in ast.walk(fi.node):
            if isinstance(a, ast.Assign) and len(a.targets) == 1 and isinstance(a.targets[0], ast.Subscript) and isinstance(a.targets[0].value, ast.Name):
                table_vals.setdefault(a.targets[0].value.id, []).append(a.value)
        numeric_tables = {t_ for t_, vs in table_vals.items() if vs and all(field_expr(v, field_locals) for v in vs)}
        for a in ast.walk(fi.node):
            if isinstance(a, ast.Assign) and len(a.targets) == 1 and isinstance(a.targets[0], ast.Name):
                v = a.value
                from_table = (isinstance(v, ast.Subscript) and isinstance(v.value, ast.Name) and v.value.id in numeric_tables) or \
                    (isinstance(v, ast.Call) and isinstance(v.func, ast.Attribute) and v.func.attr == "pop" and len(v.args) == 1
                     and isinstance(v.func.value, ast.Name) and v.func.value.id in numeric_tables)
                nm_ = a.targets[0].id
                if from_table and sum(1 for y in ast.walk(fi.node) if isinstance(y, ast.Name) and y.id == nm_ and isinstance(y.ctx, ast.Store)) == 1:
                    field_locals.add(nm_)
        for x in ast.walk(fi.node):
            tests = []
            if isinstance(x, (ast.If, ast.While, ast.IfExp)):
                tests = list(truth_operands(x.test))
            elif isinstance(x, ast.BoolOp) and not isinstance(getattr(x, "_parent", None), (ast.If, ast.While, ast.IfExp, ast.BoolOp, ast.UnaryOp)):
                tests = list(truth_operands(x))          # value context: `a.velocity or 127`
            elif isinstance(x, ast.Assert):
                tests = list(truth_operands(x.test))
            for t in tests:
                n += 1
                if field_expr(t, field_locals) or numeric_call(t, fi):
                    bad["TRUTHY"].append((fi, t))
                elif isinstance(t, ast.Name) and t.id in always_true:
                    bad["OBJTRUTH"].append((fi, t))
                elif isinstance(t, ast.Name) and t.id in numeric_none:
                    bad["NONETRUTH"].append((fi, t))
            if isinstance(x, ast.ExceptHandler):
                n += 1
                broad = x.type is None or (isinstance(x.type, ast.Name) and x.type.id in ("Exception", "BaseException"))
                if broad and not any(isinstance(y, ast.Raise) for y in ast.walk(x)):
                    bad["EXCEPT"].append((fi, x))
            if isinstance(x, (ast.For, ast.comprehension)):
                it = x.iter
                if isinstance(it, (ast.Set, ast.SetComp)) or (isinstance(it, ast.Call) and isinstance(it.func, ast.Name) and it.func.id in ("set", "frozenset")):
                    bad["SETORDER"].append((fi, it))
            if isinstance(x, (ast.Assign, ast.AugAssign)):
                for t in (x.targets if isinstance(x, ast.Assign) else [x.target]):
                    if isinstance(t, ast.Attribute):
                        ch = attr_chain(t)
                        if ch and len(ch) == 2 and ch[0] in p.classes and fi.name != "__init_subclass__":
                            bad["CLASSATTR"].append((fi, x))
                        if ch and len(ch) == 3 and ch[:2] == ["self", "__class__"]:
                            bad["CLASSATTR"].append((fi, x))
    texts = {"TRUTHY": ("a numeric message field is used as a truth value", "0 is a legal value and would be treated as absent"),
             "OBJTRUTH": ("an object without __bool__/__len__ is used as a truth value", "the test is constantly true: the class defines neither __bool__ nor __len__, so an empty sequence object is not falsy"),
             "NONETRUTH": ("a numeric parameter that defaults to None is tested by its truth value", "a caller that passes 0 is treated like one that passes nothing (`is not None` was meant)"),
             "EXCEPT": ("a broad except swallows failures", "an error inside the operation leaves a half-updated result without any signal"),
             "SETORDER": ("a set is iterated to produce ordered output", "the order of the produced elements is arbitrary"),
             "CLASSATTR": ("a class attribute is assigned at run time", "the value is shared by all instances and by all later calls")}
    for r_, items in bad.items():
        ctx.check(not items, r_, f"{texts[r_][0].replace(' is ', ' is never ').replace(' swallows', ' never swallows')} (functions reached: {len(functions)})",
                  function=items[0][0].qualname if items else "*", construct=texts[r_][0] if items else "ok",
                  message=f"`{short(items[0][1], 80)}`: {texts[r_][1]}" if items else "", file=items[0][0].file if items else next(iter(p.sources)),
                  node=items[0][1] if items else None)
    return n


SEQUENCE_STATE = {"RelativeSequence": {"_messages"}, "AbsoluteSequence": {"_messages"}, "AbstractSequence": {"_messages"},
                  "Sequence": {"_abs", "_rel", "_abs_stale", "_rel_stale"}}


def derived_state_rule(ctx: Ctx, rule: str = "DERIVED") -> int:
    """Object state beyond the events themselves.  (1) A sequence object holds its event list (or its two views and their freshness
    flags) and nothing derived from them: an attribute assigned outside the constructor that is none of these is a *cache* of something
    computed from the events, and it is only right while every method that changes the events resets it -- so every such method must
    store to it (directly or through a method of the object it calls).  (2) The tokeniser's queries (`tokenise`, `detokenise`, `get_info`,
    `encode`, `decode`) store nothing on the tokeniser: what they answer depends on their arguments only."""
    from ..engines.effects import Effects
    p = ctx.p
    eff = Effects(p)
    n = 0
    bad = []

    def self_stores(fn):
        return {(x.attr, x) for x in ast.walk(fn) if isinstance(x, ast.Attribute) and isinstance(x.ctx, (ast.Store, ast.Del)) and isinstance(x.value, ast.Name)
                and x.value.id == "self"}
    for cname, state in SEQUENCE_STATE.items():
        ci = p.classes.get(cname)
        if ci is None:
            continue
        methods = {m.name: m for m in ci.node.body if isinstance(m, ast.FunctionDef)}
        derived = {}
        for mname, m in methods.items():
            if mname in ("__init__", "__post_init__"):
                continue
            for a, node in self_stores(m):
                if a not in state and not any(a in SEQUENCE_STATE.get(b, ()) for b in SEQUENCE_STATE):
                    derived.setdefault(a, []).append((mname, node))
        # attributes that exist from the constructor on but hold something computed later count too when a non-constructor method fills them
        n += len(methods)
        if not derived:
            continue

        def changes_events(mname):
            m = methods[mname]
            if cname == "Sequence" and mname in ("abs", "rel", "refresh"):
                return False                     # a view rebuilt from the other one: the same events
            if cname == "Sequence":
                for c in ast.walk(m):
                    if isinstance(c, ast.Call):
                        recv, nm = call_method(c)
                        if isinstance(recv, ast.Name) and recv.id == "self" and nm in ("invalidate_abs", "invalidate_rel"):
                            return True
                        ch = attr_chain(recv) if recv is not None else None
                        if ch in (["self", "abs"], ["self", "rel"], ["self", "_abs"], ["self", "_rel"]) and nm is not None \
                                and eff.classify("AbsoluteSequence" if "abs" in ch[1] else "RelativeSequence", nm) == "MUTATE":
                            return True
                return any(a in ("_abs", "_rel") for a, _ in self_stores(m))
            return eff.classify(cname, mname) == "MUTATE"

        def resets(mname, attr, seen=()):
            m = methods.get(mname)
            if m is None or mname in seen:
                return False
            if any(a == attr for a, _ in self_stores(m)):
                return True
            for c in ast.walk(m):
                if isinstance(c, ast.Call):
                    recv, nm = call_method(c)
                    if isinstance(recv, ast.Name) and recv.id == "self" and nm in methods and resets(nm, attr, seen + (mname,)):
                        return True
            return False
        for attr, sites in derived.items():
            for mname in sorted(methods):
                if mname in ("__init__", "__post_init__") or not changes_events(mname):
                    continue
                n += 1
                if not resets(mname, attr):
                    fi = p.functions.get(f"{cname}.{mname}")
                    bad.append((fi, methods[mname], f"`{cname}.{attr}` (assigned in {sorted({s_[0] for s_ in sites})}) is not reset by `{mname}`, which changes the events",
                                "the stored value is computed from the events: after this method it describes the sequence as it was"))
    tok = p.classes.get("MultiTrackLargeVocabularyNotelikeTokeniser")
    if tok is not None:
        for m in tok.node.body:
            if isinstance(m, ast.FunctionDef) and m.name in ("tokenise", "detokenise", "get_info", "encode", "decode"):
                n += 1
                for a, node in self_stores(m):
                    fi = p.functions.get(f"{tok.name}.{m.name}")
                    bad.append((fi, node, f"`{m.name}` stores `self.{a}` on the tokeniser",
                                "the next call starts from what this one left behind: its answer depends on the calls made before, not on its arguments alone"))
    ctx.check(not bad, rule, f"no derived state on sequence objects outlives a change of the events; the tokeniser's queries store nothing ({n} methods inspected)",
              function=(bad[0][0].qualname if bad and bad[0][0] is not None else "*"), construct=bad[0][2] if bad else "ok",
              message=bad[0][3] if bad else "", file=(bad[0][0].file if bad and bad[0][0] is not None else next(iter(p.sources))), node=bad[0][1] if bad else None)
    for extra in bad[1:6]:
        ctx.violation(rule, extra[2], function=(extra[0].qualname if extra[0] is not None else "*"), construct=extra[2], message=extra[3],
                      file=(extra[0].file if extra[0] is not None else next(iter(p.sources))), node=extra[1])
    return n


MEMO_DECORATORS = {"lru_cache", "cache", "cached_property"}
_EXEMPT_MODULES = ("scoda/settings/", "scoda/misc/scoda_logging", "scoda/misc/logging")


def process_state_rule(ctx: Ctx, rule: str = "MEMO") -> int:
    """No result of the library depends on what the process did before: (1) no function or property is wrapped in a
    functools memoiser (every caller would share one result object, and a result computed from a mutable argument or a file
    goes stale); (2) no module-level container is changed from inside a function (settings and logging apart)."""
    p = ctx.p
    n = 0
    bad = []
    for fi in p.all_functions():
        if fi.file.startswith(_EXEMPT_MODULES) or any(x in fi.file for x in _EXEMPT_MODULES):
            continue
        n += 1
        for d in fi.node.decorator_list:
            f = d.func if isinstance(d, ast.Call) else d
            name = f.attr if isinstance(f, ast.Attribute) else (f.id if isinstance(f, ast.Name) else None)
            if name in MEMO_DECORATORS:
                bad.append((fi, d, f"`@{short(d, 40)}` on {fi.qualname}", "every call with equal arguments returns the object made by the first one: callers share it, and it "
                                                                        "does not follow later changes of a mutable argument, a file or a setting"))
    # module-level containers
    for path, mi in p.modules.items():
        if any(x in path for x in _EXEMPT_MODULES):
            continue
        glob = {}
        for st in mi.tree.body:
            tgt, val = None, None
            if isinstance(st, ast.Assign) and len(st.targets) == 1 and isinstance(st.targets[0], ast.Name):
                tgt, val = st.targets[0].id, st.value
            elif isinstance(st, ast.AnnAssign) and isinstance(st.target, ast.Name) and st.value is not None:
                tgt, val = st.target.id, st.value
            if tgt and (isinstance(val, (ast.Dict, ast.List, ast.Set)) or (isinstance(val, ast.Call) and isinstance(val.func, ast.Name)
                                                                           and val.func.id in ("dict", "list", "set", "defaultdict", "OrderedDict"))):
                glob[tgt] = st
        if not glob:
            continue
        for fi in p.all_functions():
            if fi.file != path:
                continue
            local = {a.arg for a in fi.node.args.args + fi.node.args.kwonlyargs} | {x.id for x in ast.walk(fi.node) if isinstance(x, ast.Name) and isinstance(x.ctx, ast.Store)}
            declared = {nm for g in ast.walk(fi.node) if isinstance(g, ast.Global) for nm in g.names}
            for x in ast.walk(fi.node):
                nm = None
                if isinstance(x, ast.Call) and isinstance(x.func, ast.Attribute) and isinstance(x.func.value, ast.Name) and x.func.attr in MUTATORS_LOCAL:
                    nm = x.func.value.id
                elif isinstance(x, (ast.Assign, ast.AugAssign, ast.Delete)):
                    for t in (x.targets if isinstance(x, (ast.Assign, ast.Delete)) else [x.target]):
                        b = t
                        while isinstance(b, ast.Subscript):
                            b = b.value
                        if b is not t and isinstance(b, ast.Name):
                            nm = b.id
                        elif isinstance(t, ast.Name) and t.id in declared:
                            nm = t.id
                if nm in glob and (nm not in local or nm in declared):
                    bad.append((fi, x, f"module-level `{nm}` changed in {fi.qualname}", "state shared by every call in the process: later results depend on the call history"))
    ctx.check(not bad, rule, f"no memoised function and no module-level container written by a function ({n} functions inspected)",
              function=bad[0][0].qualname if bad else "*", construct=bad[0][2] if bad else "ok", message=bad[0][3] if bad else "",
              file=bad[0][0].file if bad else next(iter(p.sources)), node=bad[0][1] if bad else None)
    return n


MUTATORS_LOCAL = {"append", "extend", "insert", "pop", "remove", "clear", "sort", "reverse", "update", "setdefault", "popitem", "add", "discard", "__setitem__"}


def undefined_name_rule(ctx: Ctx, functions, rule: str = "UNDEF") -> int:
    """Every name a reached function reads can be resolved: it is a parameter or local that some definition reaches, a name
    of an enclosing function, a module-level name (assignment, import, def, class) or a builtin.  A read that resolves nowhere
    raises NameError / UnboundLocalError the first time the path is taken -- typically a rarely taken path, or the tests would
    have seen it (the statement that defined the name was deleted or moved under a condition)."""
    import builtins
    from ..webs import unbound_reads
    p = ctx.p
    n = 0
    bad = []
    bi = set(dir(builtins))
    mod_names: dict[str, set] = {}
    for path, mi in p.modules.items():
        names = set()
        star = False
        for st in ast.walk(mi.tree):
            if isinstance(st, (ast.FunctionDef, ast.AsyncFunctionDef, ast.ClassDef)) and getattr(st, "_parent", None) is mi.tree:
                names.add(st.name)
            elif isinstance(st, (ast.Import, ast.ImportFrom)):
                for a in st.names:
                    if a.name == "*":
                        star = True
                    names.add((a.asname or a.name).split(".")[0])
            elif isinstance(st, ast.Global):
                names |= set(st.names)
        for st in mi.tree.body:
            for x in ast.walk(st) if not isinstance(st, (ast.FunctionDef, ast.AsyncFunctionDef, ast.ClassDef)) else []:
                if isinstance(x, ast.Name) and isinstance(x.ctx, ast.Store):
                    names.add(x.id)
        mod_names[path] = names | ({"*"} if star else set())
    for q in sorted(functions):
        fi = p.functions.get(q)
        if fi is None or "." in q and q.count(".") > 1:
            continue
        n += 1
        mods = mod_names.get(fi.file, set())
        if "*" in mods:
            continue
        fn = fi.node
        bound = {x.id for x in ast.walk(fn) if isinstance(x, ast.Name) and isinstance(x.ctx, (ast.Store, ast.Del))}
        for x in ast.walk(fn):
            if isinstance(x, ast.arguments):
                bound |= {a.arg for a in x.posonlyargs + x.args + x.kwonlyargs + ([x.vararg] if x.vararg else []) + ([x.kwarg] if x.kwarg else [])}
            elif isinstance(x, (ast.FunctionDef, ast.AsyncFunctionDef, ast.ClassDef)) and x is not fn:
                bound.add(x.name)
            elif isinstance(x, (ast.Import, ast.ImportFrom)):
                bound |= {(a.asname or a.name).split(".")[0] for a in x.names}
            elif isinstance(x, ast.ExceptHandler) and x.name:
                bound.add(x.name)
            elif isinstance(x, (ast.Global, ast.Nonlocal)):
                bound |= set(x.names)
        # enclosing function scopes
        for a in ancestors(fn):
            if isinstance(a, (ast.FunctionDef, ast.AsyncFunctionDef)):
                bound |= {y.id for y in ast.walk(a) if isinstance(y, ast.Name) and isinstance(y.ctx, ast.Store)} | {b.arg for b in a.args.args + a.args.kwonlyargs}
        for x in ast.walk(fn):
            if isinstance(x, ast.Name) and isinstance(x.ctx, ast.Load) and x.id not in bound and x.id not in mods and x.id not in bi and x.id != "__class__":
                bad.append((fi, x, f"`{x.id}` is read in {fi.qualname} but bound nowhere (no local, enclosing, module-level or builtin name)"))
        for x in unbound_reads(fn):
            bad.append((fi, x, f"`{x.id}` is read in {fi.qualname} before any assignment can reach the read"))
        # nested functions (the tokeniser's `_apply_rest`): their own locals, by the same three shapes
        for sub in ast.walk(fn):
            if sub is not fn and isinstance(sub, (ast.FunctionDef, ast.AsyncFunctionDef)):
                n += 1
                for x in unbound_reads(sub):
                    bad.append((fi, x, f"`{x.id}` is read in {fi.qualname}.{sub.name} before any assignment can reach the read"))
    ctx.check(not bad, rule, f"every name read resolves to a definition ({n} functions inspected)", function=bad[0][0].qualname if bad else "*",
              construct=bad[0][2] if bad else "ok", message="the read raises NameError / UnboundLocalError whenever that path is executed" if bad else "",
              file=bad[0][0].file if bad else next(iter(p.sources)), node=bad[0][1] if bad else None)
    return n


REBIND_ALLOWED = {("Key.transpose_key", "key"): "enharmonic spelling mapped to the key the tables are written for (decided by C20's table rules)"}
_BENIGN_CONVERSIONS = {"list", "tuple", "sorted", "set", "dict", "str", "Path", "copy", "deepcopy"}


def param_rebind_rule(ctx: Ctx, functions, rule: str = "REBIND") -> int:
    """A function works with the arguments it was given: a parameter is rebound only to install a default when it is None (the one
    idiom the library uses) or by a container conversion of itself (`x = list(x)`).  Anything else -- clamping, rounding, replacing --
    silently changes what every later statement (and every rule that reads `the parameter`) means; `channel = minmax(0, 15, channel)`
    in set_channel folds all tracks from 16 up into channel 15."""
    from ..astutil import path_conditions
    p = ctx.p
    n = 0
    bad = []
    for q in sorted(functions):
        fi = p.functions.get(q)
        if fi is None or "plot" in q:
            continue
        if fi.name.startswith("_") and not fi.name.startswith("__"):
            continue            # a private helper is free to use its parameter as its counter; the rule is about what callers of the API hand in
        a = fi.node.args
        params = {x.arg for x in a.posonlyargs + a.args + a.kwonlyargs} - {"self", "cls"}
        for st in walk_local(fi.node):
            tg = st.targets if isinstance(st, ast.Assign) else [st.target] if isinstance(st, (ast.AugAssign, ast.AnnAssign)) else []
            for t in tg:
                for x in ast.walk(t):
                    if not (isinstance(x, ast.Name) and isinstance(x.ctx, ast.Store) and x.id in params):
                        continue
                    n += 1
                    if (q, x.id) in REBIND_ALLOWED:
                        continue
                    pcs = []
                    for c, holds in path_conditions(st):
                        # a conjunction that holds makes each conjunct hold
                        pcs.extend((v, True) for v in c.values) if holds and isinstance(c, ast.BoolOp) and isinstance(c.op, ast.And) else pcs.append((c, holds))
                    default_fill = isinstance(st, ast.Assign) and any(
                        holds and isinstance(c, ast.Compare) and len(c.ops) == 1 and isinstance(c.ops[0], (ast.Is, ast.Eq)) and isinstance(c.left, ast.Name)
                        and c.left.id == x.id and isinstance(c.comparators[0], ast.Constant) and c.comparators[0].value is None for c, holds in pcs)
                    v = getattr(st, "value", None)
                    conversion = isinstance(st, ast.Assign) and isinstance(v, ast.Call) and (getattr(v.func, "id", None) or getattr(v.func, "attr", None)) in _BENIGN_CONVERSIONS \
                        and len(v.args) >= 1 and isinstance(v.args[0], ast.Name) and v.args[0].id == x.id
                    if not (default_fill or conversion):
                        bad.append((fi, st, x.id))
    ctx.check(not bad, rule, f"parameters are rebound only to install a default for None ({n} rebinding(s) inspected)", function=bad[0][0].qualname if bad else "*",
              construct=f"parameter `{bad[0][2]}` of {bad[0][0].qualname} is replaced by a value computed from it" if bad else "ok",
              message=f"`{short(bad[0][1], 80)}`: from here on the function works with something other than the argument it was given" if bad else "",
              file=bad[0][0].file if bad else next(iter(p.sources)), node=bad[0][1] if bad else None)
    return n


def identity_rule(ctx: Ctx, functions, rule: str = "IDENT") -> int:
    """Numbers are compared by value: `is` / `is not` between two expressions of which one is a numeric message field or a local
    computed by arithmetic is an identity test on int objects -- CPython shares small ints only (-5..256), so the test answers
    `different` for equal values above that (a note longer than 256 ticks never equals itself)."""
    p = ctx.p
    n = 0
    bad = []
    for q in sorted(functions):
        fi = p.functions.get(q)
        if fi is None:
            continue
        arith = {a.targets[0].id for a in ast.walk(fi.node) if isinstance(a, ast.Assign) and len(a.targets) == 1 and isinstance(a.targets[0], ast.Name)
                 and isinstance(a.value, (ast.BinOp,)) and isinstance(a.value.op, (ast.Add, ast.Sub, ast.Mult, ast.Div, ast.FloorDiv, ast.Mod))}

        def numeric(e):
            if isinstance(e, ast.Attribute) and e.attr in NUMERIC_FIELDS:
                return True
            if isinstance(e, ast.Name) and e.id in arith:
                return True
            if isinstance(e, ast.BinOp):
                return True
            return isinstance(e, ast.Constant) and isinstance(e.value, (int, float)) and not isinstance(e.value, bool)
        for c in ast.walk(fi.node):
            if isinstance(c, ast.Compare) and len(c.ops) == 1 and isinstance(c.ops[0], (ast.Is, ast.IsNot)):
                n += 1
                l, r = c.left, c.comparators[0]
                if any(isinstance(x, ast.Constant) and x.value is None for x in (l, r)):
                    continue
                if numeric(l) or numeric(r):
                    bad.append((fi, c))
    ctx.check(not bad, rule, f"no identity test between numbers ({n} `is` / `is not` comparisons inspected)", function=bad[0][0].qualname if bad else "*",
              construct="two numbers are compared with `is` / `is not`" if bad else "ok",
              message=f"`{short(bad[0][1], 70)}`: int objects above 256 are distinct objects even when equal, so the test reports a difference that is not there" if bad else "",
              file=bad[0][0].file if bad else next(iter(p.sources)), node=bad[0][1] if bad else None)
    return n


def default_channel_rule(ctx: Ctx, functions, rule: str = "DEFCHAN") -> int:
    """Messages an operation creates itself (consolidated waits, padding, the end marker of the absolute view, the default
    signature) carry the sequence's channel: the local handed to `Message(channel=...)` starts as None and takes the channel of
    the first message that has one -- `if <local> is None and msg.channel is not None: <local> = msg.channel`.  With the guard
    inverted the local stays None, the created message falls back to channel 0, and a sequence on channel 7 is no longer
    channel-consistent after a conversion."""
    from ..astutil import path_conditions
    p = ctx.p
    n = 0
    for q in sorted(functions):
        fi = p.functions.get(q)
        if fi is None:
            continue
        # the role: a name passed as channel= to a Message(...) that is also assigned `<x>.channel` somewhere in the function
        passed = {k.value.id for c in ast.walk(fi.node) if isinstance(c, ast.Call) and isinstance(c.func, ast.Name) and c.func.id == "Message"
                  for k in c.keywords if k.arg == "channel" and isinstance(k.value, ast.Name)}
        for var in sorted(passed):
            stores = [a for a in walk_local(fi.node) if isinstance(a, ast.Assign) and any(isinstance(t, ast.Name) and t.id == var for t in a.targets)]
            takes = [a for a in stores if isinstance(a.value, ast.Attribute) and a.value.attr == "channel" and isinstance(a.value.value, ast.Name)]
            inits = [a for a in stores if isinstance(a.value, ast.Constant) and a.value.value is None]
            if not takes:
                continue
            n += 1
            ok = len(takes) == 1 and len(inits) >= 1 and len(stores) == len(takes) + len(inits)
            why = f"stores {[short(a, 50) for a in stores]}"
            if ok:
                t = takes[0]
                m = t.value.value.id
                pcs = path_conditions(t, stop=next((a for a in ancestors(t) if isinstance(a, (ast.For, ast.While))), None))
                leaves = []
                for test, holds in pcs:
                    vals = test.values if isinstance(test, ast.BoolOp) and isinstance(test.op, ast.And) and holds else [test]
                    for v in vals:
                        leaves.append((v, holds))
                want_a = want_b = False
                extra = []
                for v, holds in leaves:
                    if isinstance(v, ast.Compare) and len(v.ops) == 1 and isinstance(v.comparators[0], ast.Constant) and v.comparators[0].value is None:
                        is_none = isinstance(v.ops[0], (ast.Is, ast.Eq)) == holds
                        if isinstance(v.left, ast.Name) and v.left.id == var and is_none:
                            want_a = True
                            continue
                        if src(v.left) == f"{m}.channel" and not is_none:
                            want_b = True
                            continue
                    extra.append(short(v, 40))
                ok = want_a and not extra
                why = f"guard {[(short(t_, 50), h) for t_, h in pcs]}"
            ctx.check(ok, rule, f"{q}: `{var}` (the channel of the messages created here) takes the channel of the first message that has one", function=q,
                      construct=f"the channel given to created messages in {q} is not `the first channel seen`",
                      message=f"{why}: the local stays None (created messages fall back to channel 0) or follows a later message", file=fi.file,
                      node=takes[0] if takes else fi.node)
    return n


def message_type_order(p) -> tuple[dict | None, str]:
    """member name -> sort position as `MessageType.__lt__` computes it, for the idioms: positions in the declaration
    (`[e for e in MessageType].index(x)` / `list(MessageType).index(x)`), or a module-level table (list -> index of first occurrence,
    dict / dict comprehension over enumerate(list) -> last position written).  (None, why) when the comparison is something else."""
    lt = p.functions.get("MessageType.__lt__")
    if lt is None:
        return None, "MessageType.__lt__ not found"
    rets = [r for r in walk_local(lt.node) if isinstance(r, ast.Return) and r.value is not None]
    if len(rets) != 1 or not (isinstance(rets[0].value, ast.Compare) and len(rets[0].value.ops) == 1 and isinstance(rets[0].value.ops[0], ast.Lt)):
        return None, "not a single `return <position of self> < <position of other>`"
    l, r = rets[0].value.left, rets[0].value.comparators[0]
    me, other = lt.params[0], lt.params[1]
    members = p.enum_order("MessageType")

    def pos_expr(e, who):
        """-> ('decl', None) | ('table', name) | None"""
        if isinstance(e, ast.Call) and isinstance(e.func, ast.Attribute) and e.func.attr == "index" and len(e.args) == 1 and isinstance(e.args[0], ast.Name) \
                and e.args[0].id == who:
            base = e.func.value
            if isinstance(base, ast.Name):
                defs = [a for a in walk_local(lt.node) if isinstance(a, ast.Assign) and isinstance(a.targets[0], ast.Name) and a.targets[0].id == base.id]
                if len(defs) == 1:
                    base = defs[0].value
                else:
                    return ("table", base.id)
            t = src(base).replace(" ", "")
            comp = isinstance(base, ast.ListComp) and len(base.generators) == 1 and not base.generators[0].ifs and isinstance(base.elt, ast.Name) \
                and isinstance(base.generators[0].target, ast.Name) and base.elt.id == base.generators[0].target.id and src(base.generators[0].iter) == "MessageType"
            if comp or t in ("list(MessageType)", "[*MessageType]", "tuple(MessageType)"):
                return ("decl", None)
            return None
        if isinstance(e, ast.Subscript) and isinstance(e.value, ast.Name) and isinstance(e.slice, ast.Name) and e.slice.id == who:
            return ("table", e.value.id)
        if isinstance(e, ast.Subscript) and isinstance(e.value, ast.Name) and isinstance(e.slice, ast.Attribute) and isinstance(e.slice.value, ast.Name) \
                and e.slice.value.id == who and e.slice.attr in ("value", "name"):
            return ("table:" + e.slice.attr, e.value.id)       # keyed by the member's value / name
        return None
    a, b = pos_expr(l, me), pos_expr(r, other)
    if a is None or b is None or a != b:
        return None, f"`{short(rets[0].value, 70)}`: positions are not read the same way for both operands"
    if a[0] == "decl":
        return {m: i for i, m in enumerate(members)}, "declaration order"
    # module-level table
    mod = p.modules[lt.file].tree
    tdef = next((st for st in mod.body if isinstance(st, ast.Assign) and isinstance(st.targets[0], ast.Name) and st.targets[0].id == a[1]), None)
    if tdef is None:
        return None, f"table `{a[1]}` not found at module level"
    v = tdef.value

    by = a[0].split(":")[1] if ":" in a[0] else None
    values = {v: k for k, v in p.enum_values("MessageType").items()} if by == "value" else {}

    def member(e):
        ch = attr_chain(e)
        if ch and len(ch) == 2 and ch[0] == "MessageType":
            return ch[1]
        if ch and len(ch) == 3 and ch[0] == "MessageType" and ch[2] in ("value", "name"):
            return ch[1]
        if by == "value" and isinstance(e, ast.Constant) and e.value in values:
            return values[e.value]
        if by == "name" and isinstance(e, ast.Constant) and e.value in members:
            return e.value
        return None
    if isinstance(v, (ast.List, ast.Tuple)):
        names = [member(e) for e in v.elts]
        if None in names:
            return None, "table holds something other than members"
        pos = {}
        for i, nme in enumerate(names):
            pos.setdefault(nme, i)           # list.index: first occurrence
        return pos, f"table `{a[1]}`"
    if isinstance(v, ast.Dict):
        pos = {}
        for k, val in zip(v.keys, v.values):
            if member(k) is None or not isinstance(val, ast.Constant):
                return None, "dict table with non-literal entries"
            pos[member(k)] = val.value
        return pos, f"table `{a[1]}`"
    if isinstance(v, ast.DictComp) and len(v.generators) == 1 and isinstance(v.generators[0].iter, ast.Call) and src(v.generators[0].iter.func) == "enumerate" \
            and isinstance(v.generators[0].iter.args[0], (ast.List, ast.Tuple)) and isinstance(v.generators[0].target, ast.Tuple):
        idx_name, mem_name = [x.id for x in v.generators[0].target.elts]
        names = [member(e) for e in v.generators[0].iter.args[0].elts]
        if None in names or src(v.key) != mem_name or src(v.value) != idx_name:
            return None, "dict comprehension of another shape"
        pos = {}
        for i, nme in enumerate(names):
            pos[nme] = i                     # later entries overwrite
        return pos, f"table `{a[1]}`"
    return None, f"table `{a[1]}` of an unrecognised shape"


def message_type_order_rule(ctx: Ctx, rule: str = "ORDER") -> None:
    """The tie-breaker of the canonical sort is a strict total order on *all* message kinds in which a note-off precedes a note-on:
    a kind the comparison does not know makes every sort that meets it raise (the absolute view can no longer be built), two kinds on
    one position make the order of simultaneous events depend on insertion history."""
    p = ctx.p
    lt = p.functions.get("MessageType.__lt__")
    if lt is not None:
        ctx.analysed(lt)
    pos, how = message_type_order(p)
    members = p.enum_order("MessageType")
    if pos is None:
        # everything that sorts simultaneous events rests on this order: an ordering the analysis cannot read is not waved through
        from ..model import AnalysisError as _AE
        raise _AE(f"MessageType.__lt__: the order of message kinds could not be read from the code ({how})")
    missing = [m for m in members if m not in pos]
    ctx.check(not missing, rule, f"MessageType.__lt__ ({how}) knows every message kind", function=lt.qualname,
              construct="the ordering of message kinds does not cover every kind",
              message=f"{missing} have no position: a sort that compares such a message raises, so the absolute view of a sequence holding one cannot be built",
              file=lt.file, node=lt.node)
    vals = [pos[m] for m in members if m in pos]
    ctx.check(len(set(vals)) == len(vals), rule, "no two message kinds share a sort position", function=lt.qualname,
              construct="two message kinds share one sort position", message=f"{sorted((v, m) for m, v in pos.items())}", file=lt.file, node=lt.node)
    ctx.check("NOTE_OFF" in pos and "NOTE_ON" in pos and pos["NOTE_OFF"] < pos["NOTE_ON"], rule, "a note-off sorts before a note-on of the same tick and channel",
              function=lt.qualname, construct="NOTE_ON ordered before NOTE_OFF",
              message="abutting notes of one pitch would re-open before closing and be fused / dropped", file=lt.file, node=lt.node)
