"""Q1 -- must-consume analysis of a deferred-event list (RelativeSequence.split.next_sequence_queue).

State per tracked list: E (certainly empty / consumed) or N (may hold events that were not consumed yet).
`q = []` -> E (a violation if the old value was N: events dropped); `q.append(x)` -> N; consumption (splice
`L[a:b] = q`, `L.extend(q)`, `L += q`, iteration `for m in q`) -> E.  At every normal function exit the state must be E.
A `while X >= 0` loop whose every update of X is `X -= e` under the dominating guard `e <= X` can never leave through
its condition (X stays non-negative): that exit edge is pruned (the only invariant the analysis proves; if it cannot be
proved the edge is kept and a resulting report is marked undetermined).
"""
from __future__ import annotations

import ast

from ..absint import AbsInt
from ..astutil import attr_chain, call_method, short, src, ancestors
from ..model import walk_local

E = frozenset()


def nonneg_invariant(loop: ast.While) -> bool:
    t = loop.test
    if not (isinstance(t, ast.Compare) and len(t.ops) == 1 and isinstance(t.ops[0], ast.GtE) and isinstance(t.left, ast.Name)
            and isinstance(t.comparators[0], ast.Constant) and t.comparators[0].value == 0):
        return False
    x = t.left.id
    for n in ast.walk(loop):
        if isinstance(n, ast.AugAssign) and isinstance(n.target, ast.Name) and n.target.id == x:
            if not isinstance(n.op, ast.Sub):
                return False
            guard_ok = False
            for a in ancestors(n):
                if a is loop:
                    break
                if isinstance(a, ast.If) and n in list(ast.walk(ast.Module(body=a.body, type_ignores=[]))):
                    g = a.test
                    if isinstance(g, ast.Compare) and len(g.ops) == 1 and isinstance(g.ops[0], (ast.LtE, ast.Lt)) \
                            and src(g.left) == src(n.value) and isinstance(g.comparators[0], ast.Name) and g.comparators[0].id == x:
                        guard_ok = True
                    if isinstance(g, ast.Compare) and len(g.ops) == 1 and isinstance(g.ops[0], (ast.GtE, ast.Gt)) \
                            and src(g.comparators[0]) == src(n.value) and isinstance(g.left, ast.Name) and g.left.id == x:
                        guard_ok = True
            if not guard_ok:
                return False
        elif isinstance(n, ast.Assign) and any(isinstance(tg, ast.Name) and tg.id == x for tg in n.targets):
            return False
    return True


class QueueInterp(AbsInt):
    def __init__(self, qname: str):
        super().__init__()
        self.q = qname
        self.drops: list[tuple[ast.AST, str]] = []
        self._adds: set = set()
        self._consumes: set = set()
        self.pruned = 0
        self.unproved_loops = 0

    def join(self, a, b):
        return a | b

    def label(self, call: ast.Call) -> str:
        """What is being deferred at this add site (line-number free)."""
        arg = call.args[-1] if call.args else None
        if isinstance(arg, ast.Call) and isinstance(arg.func, ast.Name):
            mt = next((k.value for k in arg.keywords if k.arg == "message_type"), None)
            kind = attr_chain(mt)[-1] if mt is not None and attr_chain(mt) else "?"
            return f"new {kind} message"
        if isinstance(arg, ast.Name):
            # the current message: name the type branch it sits in
            for a in ancestors(call):
                if isinstance(a, ast.If) and a.test is not None and "message_type" in src(a.test):
                    # which arm of the chain contains the call?
                    inside_body = any(call is x for y in a.body for x in ast.walk(y))
                    ch = attr_chain(a.test.comparators[0]) if isinstance(a.test, ast.Compare) else None
                    if inside_body and ch:
                        return f"current message in the {ch[-1]} branch"
            return "current message in the fall-through (other kinds) branch"
        return "value"

    def copy(self, s):
        return s

    def stmt(self, s, st):
        q = self.q
        if isinstance(s, ast.Assign):
            if any(isinstance(t, ast.Name) and t.id == q for t in s.targets):
                for lab in sorted(st):
                    self.drops.append((s, "re-initialised while it may still hold deferred events", lab))
                return E
            for t in s.targets:
                if isinstance(t, ast.Subscript) and isinstance(t.slice, ast.Slice) and isinstance(s.value, ast.Name) and s.value.id == q:
                    self._consumes.add(id(s))
                    return E
            return st
        if isinstance(s, ast.AugAssign) and isinstance(s.value, ast.Name) and s.value.id == q:
            self._consumes.add(id(s))
            return E
        if isinstance(s, ast.Expr) and isinstance(s.value, ast.Call):
            recv, name = call_method(s.value)
            if isinstance(recv, ast.Name) and recv.id == q and name in ("append", "insert", "extend"):
                self._adds.add(id(s))
                return st | frozenset([self.label(s.value)])
            if name in ("extend",) and s.value.args and isinstance(s.value.args[0], ast.Name) and s.value.args[0].id == q:
                self._consumes.add(id(s))
                return E
            if name in ("extend",) and s.value.args and any(isinstance(x, ast.Name) and x.id == q for x in ast.walk(s.value.args[0])):
                self._consumes.add(id(s))
                return E
        return st

    @property
    def adds(self):
        return len(self._adds)

    @property
    def consumes(self):
        return len(self._consumes)

    def for_iter(self, node, st):
        if isinstance(node.iter, ast.Name) and node.iter.id == self.q:
            self._consumes.add(id(node))
            return E
        return st

    def cond(self, test, st):
        par = getattr(test, "_parent", None)
        if isinstance(par, ast.While) and par.test is test:
            if nonneg_invariant(par):
                self.pruned += 1
                return st, None
            self.unproved_loops += 1
        return st, st

    def run(self, fn: ast.FunctionDef):
        end, rets, raises = self.run_function(fn, E)
        for lab in sorted(end or ()):
            self.drops.append((fn, "still holds deferred events when the function falls off its end", lab))
        for node, st in rets:
            for lab in sorted(st):
                self.drops.append((node, "still holds deferred events at `return`", lab))
        seen, out = set(), []
        for node, why, lab in self.drops:
            if (why, lab) not in seen:
                seen.add((why, lab))
                out.append((node, why, lab))
        return out


def find_queues(fn: ast.FunctionDef) -> list[str]:
    """Local lists that receive deferred messages and are spliced back into a work list (or, failing that, local lists
    re-initialised inside a loop that receive Message objects built from an open note: the deferred-event role)."""
    out = []
    for n in walk_local(fn):
        if isinstance(n, ast.Assign):
            for t in n.targets:
                if isinstance(t, ast.Subscript) and isinstance(t.slice, ast.Slice) and isinstance(n.value, ast.Name):
                    if n.value.id not in out:
                        out.append(n.value.id)
    if not out:
        # no splice site at all: identify the queue as the list (re-)initialised to [] inside a loop to which messages are appended
        for n in walk_local(fn):
            if isinstance(n, ast.Assign) and isinstance(n.value, ast.List) and not n.value.elts and isinstance(n.targets[0], ast.Name) \
                    and any(isinstance(a, (ast.For, ast.While)) for a in ancestors(n)):
                nm = n.targets[0].id
                if any(isinstance(c, ast.Call) and isinstance(c.func, ast.Attribute) and c.func.attr == "append" and isinstance(c.func.value, ast.Name)
                       and c.func.value.id == nm for c in ast.walk(fn)) and nm not in out:
                    out.append(nm)
    return out
