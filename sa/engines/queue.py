"""Q1 -- must-consume analysis of a deferred-event list (RelativeSequence.split.next_sequence_queue).

State per tracked list: E (certainly empty / consumed) or N (may hold events that were not consumed yet).
`q = []` -> E (a violation if the old value was N: events dropped); `q.append(x)` -> N; consumption (splice
`L[a:b] = q`, `L.extend(q)`, `L += q`, iteration `for m in q`) -> E.  At every normal function exit the state must be E.
A `while X >= 0` loop whose every update of X is `X -= e` under the dominating guard `e <= X` can never leave through
its condition (X stays non-negative): that exit edge is pruned (the only invariant the analysis proves; if it cannot be
proved the edge is kept and a resulting report is marked undetermined).
"""
from __future__ import annotations

import ast

from ..absint import AbsInt
from ..astutil import attr_chain, call_method, short, src, ancestors
from ..model import walk_local

E, N = "E", "N"


def nonneg_invariant(loop: ast.While) -> bool:
    t = loop.test
    if not (isinstance(t, ast.Compare) and len(t.ops) == 1 and isinstance(t.ops[0], ast.GtE) and isinstance(t.left, ast.Name)
            and isinstance(t.comparators[0], ast.Constant) and t.comparators[0].value == 0):
        return False
    x = t.left.id
    for n in ast.walk(loop):
        if isinstance(n, ast.AugAssign) and isinstance(n.target, ast.Name) and n.target.id == x:
            if not isinstance(n.op, ast.Sub):
                return False
            guard_ok = False
            for a in ancestors(n):
                if a is loop:
                    break
                if isinstance(a, ast.If) and n in list(ast.walk(ast.Module(body=a.body, type_ignores=[]))):
                    g = a.test
                    if isinstance(g, ast.Compare) and len(g.ops) == 1 and isinstance(g.ops[0], (ast.LtE, ast.Lt)) \
                            and src(g.left) == src(n.value) and isinstance(g.comparators[0], ast.Name) and g.comparators[0].id == x:
                        guard_ok = True
                    if isinstance(g, ast.Compare) and len(g.ops) == 1 and isinstance(g.ops[0], (ast.GtE, ast.Gt)) \
                            and src(g.comparators[0]) == src(n.value) and isinstance(g.left, ast.Name) and g.left.id == x:
                        guard_ok = True
            if not guard_ok:
                return False
        elif isinstance(n, ast.Assign) and any(isinstance(tg, ast.Name) and tg.id == x for tg in n.targets):
            return False
    return True


class QueueInterp(AbsInt):
    def __init__(self, qname: str):
        super().__init__()
        self.q = qname
        self.drops: list[tuple[ast.AST, str]] = []
        self._adds: set = set()
        self._consumes: set = set()
        self.pruned = 0
        self.unproved_loops = 0

    def join(self, a, b):
        return N if N in (a, b) else E

    def copy(self, s):
        return s

    def stmt(self, s, st):
        q = self.q
        if isinstance(s, ast.Assign):
            if any(isinstance(t, ast.Name) and t.id == q for t in s.targets):
                if st == N:
                    self.drops.append((s, "re-initialised while it may still hold deferred events"))
                return E
            for t in s.targets:
                if isinstance(t, ast.Subscript) and isinstance(t.slice, ast.Slice) and isinstance(s.value, ast.Name) and s.value.id == q:
                    self._consumes.add(id(s))
                    return E
            return st
        if isinstance(s, ast.AugAssign) and isinstance(s.value, ast.Name) and s.value.id == q:
            self._consumes.add(id(s))
            return E
        if isinstance(s, ast.Expr) and isinstance(s.value, ast.Call):
            recv, name = call_method(s.value)
            if isinstance(recv, ast.Name) and recv.id == q and name in ("append", "insert", "extend"):
                self._adds.add(id(s))
                return N
            if name in ("extend",) and s.value.args and isinstance(s.value.args[0], ast.Name) and s.value.args[0].id == q:
                self._consumes.add(id(s))
                return E
            if name in ("extend",) and s.value.args and any(isinstance(x, ast.Name) and x.id == q for x in ast.walk(s.value.args[0])):
                self._consumes.add(id(s))
                return E
        return st

    @property
    def adds(self):
        return len(self._adds)

    @property
    def consumes(self):
        return len(self._consumes)

    def for_iter(self, node, st):
        if isinstance(node.iter, ast.Name) and node.iter.id == self.q:
            self._consumes.add(id(node))
            return E
        return st

    def cond(self, test, st):
        par = getattr(test, "_parent", None)
        if isinstance(par, ast.While) and par.test is test:
            if nonneg_invariant(par):
                self.pruned += 1
                return st, None
            self.unproved_loops += 1
        return st, st

    def run(self, fn: ast.FunctionDef):
        end, rets, raises = self.run_function(fn, E)
        if end == N:
            self.drops.append((fn, "still holds deferred events when the function falls off its end"))
        for node, st in rets:
            if st == N:
                self.drops.append((node, "still holds deferred events at `return`"))
        return self.drops


def find_queues(fn: ast.FunctionDef) -> list[str]:
    """Local lists that receive deferred messages and are spliced back into a work list."""
    out = []
    for n in walk_local(fn):
        if isinstance(n, ast.Assign):
            for t in n.targets:
                if isinstance(t, ast.Subscript) and isinstance(t.slice, ast.Slice) and isinstance(n.value, ast.Name):
                    if n.value.id not in out:
                        out.append(n.value.id)
    return out
