"""TAB / RET / VS -- literal tables of music_theory.py checked completely; totality; finite value-set evaluation."""
from __future__ import annotations

import ast
import os

from ..absint import AbsInt
from ..astutil import attr_chain, enum_member, short, src, call_method
from ..linear import Normaliser
from ..model import Program, AnalysisError, walk_local, FuncInfo
from ..report import Ctx

MT_FILE = "scoda/misc/music_theory.py"


class Tables:
    def __init__(self, p: Program):
        self.p = p
        self.note = dict(p.enums.get("Note") or [])
        self.key = dict(p.enums.get("Key") or [])
        if len(self.note) == 0 or len(self.key) == 0:
            raise AnalysisError("Note/Key enums not found")
        mm = p.cls("MusicMapping")
        cof = p.cls("CircleOfFifths")
        self.file = mm.file
        self.nodes = {}
        self._cache = {}
        for name in ("KeyKeyMapping", "KeyNoteMapping", "key_transpose_order", "key_transpose_mapping"):
            if name not in mm.class_attrs:
                if name == "key_transpose_mapping":
                    continue                         # only an aid of transpose_key: what that function returns is evaluated anyway (VS-KEY)
                raise AnalysisError(f"MusicMapping.{name} not found")
            self.nodes[name] = mm.class_attrs[name]
        self.mm_attrs = dict(mm.class_attrs)
        if "circle_of_fifths_order" not in cof.class_attrs:
            raise AnalysisError("CircleOfFifths.circle_of_fifths_order not found")
        self.nodes["circle_of_fifths_order"] = cof.class_attrs["circle_of_fifths_order"]

    def ev(self, e: ast.AST):
        """Evaluate a literal table expression to python data with enum members as ('Note','C') tuples."""
        if isinstance(e, ast.Constant):
            return e.value
        if isinstance(e, (ast.List, ast.Tuple)):
            t = [self.ev(x) for x in e.elts]
            return t if isinstance(e, ast.List) else tuple(t)
        if isinstance(e, ast.Dict) and all(k is not None for k in e.keys):
            return {self._h(self.ev(k)): self.ev(v) for k, v in zip(e.keys, e.values)}
        ch = attr_chain(e)
        if ch and len(ch) == 2 and ch[0] in self.p.enums:
            if ch[1] not in dict(self.p.enums[ch[0]]):
                raise AnalysisError(f"{ch[0]}.{ch[1]} is not an enum member")
            return (ch[0], ch[1])
        if isinstance(e, ast.Call) and isinstance(e.func, ast.Name) and e.func.id in self.p.module_funcs and not e.keywords:
            # a table built by a small module-level function from literal rows: the function is run on them (same evaluator as VS)
            args = [self._to_iv(self.ev(a)) for a in e.args]
            iv = IntEval.__new__(IntEval)
            iv.p, iv.t, iv.cof = self.p, self, []
            out = self._from_iv(iv.call(e.func.id, args))
            if isinstance(out, dict):
                return {self._h(k): v for k, v in out.items()}
            if isinstance(out, (list, tuple)):
                return out
            raise AnalysisError(f"table entry `{short(e)}`: the builder does not return a table ({out!r})")
        # anything else a table is written with (comprehensions over literal rows, `**` merges, small module-level builders): evaluated
        iv = IntEval.__new__(IntEval)
        iv.p, iv.t, iv.cof = self.p, self, []
        try:
            out = iv.ev(e, _ModuleEnv(self))
        except IntEval._Return as r_:
            out = r_.v
        if isinstance(out, tuple) and out and isinstance(out[0], str) and out[0].endswith("-ERROR"):
            raise AnalysisError(f"table entry `{short(e)}` is not a literal and does not evaluate ({out})")
        out = self._from_iv(out)
        if isinstance(out, dict):
            return {self._h(k): v for k, v in out.items()}
        if isinstance(out, (list, tuple)):
            return out
        raise AnalysisError(f"table entry `{short(e)}` is not a literal")

    def _to_iv(self, x):
        """literal-table value -> evaluator value (a Note is its pitch class there)"""
        if isinstance(x, tuple) and len(x) == 2 and x[0] == "Note" and isinstance(x[1], str):
            return ("Note", self.note[x[1]])
        if isinstance(x, list):
            return [self._to_iv(y) for y in x]
        if isinstance(x, tuple):
            return tuple(self._to_iv(y) for y in x)
        if isinstance(x, dict):
            return {self._to_iv(k): self._to_iv(v) for k, v in x.items()}
        return x

    def _from_iv(self, x):
        if isinstance(x, tuple) and len(x) == 2 and x[0] == "Note" and isinstance(x[1], int) and not isinstance(x[1], bool):
            names = [n for n, v in self.note.items() if v == x[1]]
            return ("Note", names[0]) if names else x
        if isinstance(x, list):
            return [self._from_iv(y) for y in x]
        if isinstance(x, tuple):
            return tuple(self._from_iv(y) for y in x)
        if isinstance(x, dict):
            return {self._h(self._from_iv(k)): self._from_iv(v) for k, v in x.items()}
        return x

    def module_constant(self, name: str):
        """value (evaluator form) of a module-level constant of the tables' module, or KeyError"""
        if name in self.nodes and name not in self.__dict__.setdefault("_busy", set()):
            self._busy.add(name)                     # a table of the class named in another table's expression (class-body scope)
            try:
                return self._to_iv(self.table(name))
            finally:
                self._busy.discard(name)
        mi = self.p.modules.get(self.file)
        for st in (mi.tree.body if mi is not None else []):
            if isinstance(st, ast.Assign) and len(st.targets) == 1 and isinstance(st.targets[0], ast.Name) and st.targets[0].id == name:
                return self._to_iv(self.ev(st.value))
            if isinstance(st, ast.AnnAssign) and st.value is not None and isinstance(st.target, ast.Name) and st.target.id == name:
                return self._to_iv(self.ev(st.value))
        raise KeyError(name)

    @staticmethod
    def _h(x):
        return tuple(x) if isinstance(x, list) else x

    def table(self, name):
        if name not in self._cache:
            self._cache[name] = self.ev(self.nodes[name])
        return self._cache[name]


class _ChildEnv(dict):
    """a comprehension's scope inside a table expression: its own bindings over the module constants"""
    def __init__(self, parent):
        super().__init__()
        self._p = parent

    def __contains__(self, k):
        return dict.__contains__(self, k) or k in self._p

    def __missing__(self, k):
        return self._p[k]


class _ModuleEnv(dict):
    """environment of a table expression: module-level constants of the tables' module, evaluated on demand"""
    def __init__(self, tables):
        super().__init__()
        self._t = tables

    def __contains__(self, k):
        if dict.__contains__(self, k):
            return True
        try:
            self[k] = self._t.module_constant(k)
            return True
        except KeyError:
            return False

    def __missing__(self, k):
        v = self._t.module_constant(k)
        self[k] = v
        return v


def check_tables(ctx: Ctx, rules=("NOTE", "SCALE", "ORDER", "MAP", "COF", "KKM")) -> Tables:
    p = ctx.p
    t = Tables(p)
    F = "MusicMapping"
    note_val = t.note
    keys = list(t.key)
    file = t.file

    def viol(rule, inst, construct, msg, node=None):
        ctx.violation(rule, inst, function=F, construct=construct, message=msg, file=file, node=node or t.nodes.get("KeyNoteMapping"))

    if "NOTE" in rules:
        vals = sorted(note_val.values())
        ctx.check(vals == list(range(12)), "TAB-NOTE", "Note enum = 12 pitch classes 0..11", function="Note",
                  construct="Note enum values are not exactly 0..11", message=f"Note values {vals}", file=file, node=p.cls("Note").node)
    knm = t.table("KeyNoteMapping")
    tonic = {}
    if "SCALE" in rules:
        ctx.check(set(knm) == {("Key", k) for k in keys}, "TAB-SCALE", "KeyNoteMapping covers all keys", function=F,
                  construct="KeyNoteMapping key set differs from the Key enum",
                  message=f"missing {sorted({('Key', k) for k in keys} - set(knm))} extra {sorted(set(knm) - {('Key', k) for k in keys})}",
                  file=file, node=t.nodes["KeyNoteMapping"])
    for kk, val in knm.items():
        if not (isinstance(val, tuple) and len(val) == 2 and isinstance(val[0], list)):
            raise AnalysisError("KeyNoteMapping entry shape not (scale list, accidentals)")
        scale, acc = val
        pcs = [note_val[n[1]] for n in scale]
        tonic[kk[1]] = pcs[0] if pcs else None
        if "SCALE" in rules:
            rel = [(x - pcs[0]) % 12 for x in pcs]
            ctx.check(rel == [0, 2, 4, 5, 7, 9, 11], "TAB-SCALE", f"scale of Key.{kk[1]} is a major scale on its tonic", function=F,
                      construct=f"scale entry of Key.{kk[1]} is not a major scale on its first note",
                      message=f"Key.{kk[1]}: degrees relative to tonic {rel}, expected [0, 2, 4, 5, 7, 9, 11]", file=file,
                      node=t.nodes["KeyNoteMapping"])
            name = t.key[kk[1]]
            flat = ("b" in name[1:]) or name == "F"
            expect = (5 * pcs[0]) % 12 if flat else (7 * pcs[0]) % 12
            if name in ("C#",):
                expect = 7
            if name == "Cb":
                expect = 7
            ctx.check(acc == expect, "TAB-SCALE", f"accidental count of Key.{kk[1]}", function=F,
                      construct=f"accidental count of Key.{kk[1]} inconsistent with its tonic",
                      message=f"Key.{kk[1]} ({name}) lists {acc} accidentals, circle-of-fifths position gives {expect}", file=file,
                      node=t.nodes["KeyNoteMapping"])
            # tonic must match the key's name
            letter = {"C": 0, "D": 2, "E": 4, "F": 5, "G": 7, "A": 9, "B": 11}[name[0]]
            adj = name.count("#") - name[1:].count("b")
            ctx.check((letter + adj) % 12 == pcs[0], "TAB-SCALE", f"tonic of Key.{kk[1]} matches its name {name}", function=F,
                      construct=f"scale of Key.{kk[1]} does not start on the key's tonic",
                      message=f"Key.{kk[1]} is named {name} (pitch class {(letter + adj) % 12}) but its scale starts on {pcs[0]}",
                      file=file, node=t.nodes["KeyNoteMapping"])
    order = t.table("key_transpose_order")
    mapping = t.table("key_transpose_mapping") if "key_transpose_mapping" in t.nodes else None
    if "ORDER" in rules:
        ctx.check(len(order) == 12, "TAB-ORDER", "key_transpose_order has 12 entries", function=F,
                  construct="key_transpose_order does not have 12 entries", message=f"{len(order)} entries", file=file,
                  node=t.nodes["key_transpose_order"])
        for i, k in enumerate(order):
            if not (isinstance(k, tuple) and len(k) == 2 and k[0] == "Key"):
                ctx.violation("TAB-ORDER", f"key_transpose_order[{i}] is a key", function=F, construct=f"key_transpose_order[{i}] is not a key",
                              message=f"entry {i} is {k!r}: a transposition that lands on pitch class {i} returns no key", file=file, node=t.nodes["key_transpose_order"])
                continue
            ctx.check(tonic.get(k[1]) == i, "TAB-ORDER", f"key_transpose_order[{i}] has tonic {i}", function=F,
                      construct=f"key_transpose_order[{i}] is a key whose tonic is not {i}",
                      message=f"entry {i} is Key.{k[1]} with tonic {tonic.get(k[1])}: transposition by index arithmetic breaks",
                      file=file, node=t.nodes["key_transpose_order"])
        missing = {("Key", k) for k in keys} - {k for k in order if isinstance(k, tuple)}
        if mapping is None:
            mapping = {}
            ctx.ok("TAB-ORDER", "no key_transpose_mapping table: enharmonic spellings are resolved by transpose_key itself (decided by VS-KEY)")
        else:
          ctx.check(set(mapping) == missing, "TAB-ORDER", "key_transpose_mapping covers exactly the keys missing from the order",
                  function=F, construct="key_transpose_mapping key set differs from the keys absent from key_transpose_order",
                  message=f"missing from order: {sorted(missing)}; mapped: {sorted(mapping)}", file=file,
                  node=t.nodes["key_transpose_mapping"])
        for a, b in mapping.items():
            ctx.check(b in order and tonic.get(a[1]) == tonic.get(b[1]), "TAB-ORDER", f"enharmonic mapping Key.{a[1]} -> Key.{b[1]}",
                      function=F, construct=f"key_transpose_mapping sends Key.{a[1]} to a key with a different tonic or outside the order",
                      message=f"Key.{a[1]} (tonic {tonic.get(a[1])}) -> Key.{b[1]} (tonic {tonic.get(b[1])})", file=file,
                      node=t.nodes["key_transpose_mapping"])
    if "COF" in rules:
        cof = t.table("circle_of_fifths_order")
        pcs = [note_val[n[1]] for n in cof]
        ctx.check(len(pcs) == 12 and len(set(pcs)) == 12, "TAB-COF", "circle_of_fifths_order = 12 distinct notes", function="CircleOfFifths",
                  construct="circle_of_fifths_order is not a permutation of the 12 notes", message=f"{pcs}", file=file,
                  node=t.nodes["circle_of_fifths_order"])
        ok = all((pcs[(i + 1) % 12] - pcs[i]) % 12 == 7 for i in range(len(pcs)))
        ctx.check(ok, "TAB-COF", "consecutive entries ascend by a fifth", function="CircleOfFifths",
                  construct="circle_of_fifths_order entries are not consecutive fifths", message=f"{pcs}", file=file,
                  node=t.nodes["circle_of_fifths_order"])
        ctx.check(len(pcs) > 5 and pcs[5] == 0, "TAB-COF", "C sits at index 5 (position 0)", function="CircleOfFifths",
                  construct="C is not at index 5 of circle_of_fifths_order", message=f"index 5 holds pitch class {pcs[5] if len(pcs) > 5 else None}",
                  file=file, node=t.nodes["circle_of_fifths_order"])
    if "KKM" in rules:
        kkm = t.table("KeyKeyMapping")
        for k in keys:
            name = t.key[k]
            ctx.check(kkm.get(name) == ("Key", k), "TAB-KKM", f"KeyKeyMapping[{name!r}] is Key.{k}", function=F,
                      construct=f"KeyKeyMapping does not map {name!r} to Key.{k}", message=f"got {kkm.get(name)}", file=file,
                      node=t.nodes["KeyKeyMapping"])
    ctx.sample({"tables": {"keys": len(keys), "notes": len(note_val), "order": len(order), "mapping": len(mapping)}})
    return t


def mido_key_names() -> list[str] | None:
    """Key names mido can produce, read from the installed mido source (not imported)."""
    cands = []
    for base in ("/venv/lib",):
        if os.path.isdir(base):
            for d in os.listdir(base):
                cands.append(os.path.join(base, d, "site-packages", "mido", "midifiles", "meta.py"))
    for c in cands:
        if os.path.exists(c):
            tree = ast.parse(open(c, encoding="utf-8").read())
            for n in tree.body:
                if isinstance(n, ast.Assign) and any(isinstance(t, ast.Name) and t.id == "_key_signature_decode" for t in n.targets):
                    try:
                        return sorted(set(ast.literal_eval(n.value).values()))
                    except Exception:
                        return None
    return None


def minor_relative_major(name: str) -> str | None:
    """'Am' -> 'C' etc. by pitch arithmetic: relative major is 3 semitones above the minor tonic, same signature."""
    return None


# ------------------------------------------------------------------------------------------------ RET1
class _Ret(AbsInt):
    def join(self, a, b):
        return a

    def copy(self, s):
        return s


def returns_value_on_all_paths(fn: ast.FunctionDef) -> tuple[bool, list[ast.AST]]:
    """RET1: no path falls off the end / hits a bare `return` (for functions whose result is used as a value)."""
    it = _Ret()
    end, rets, raises = it.run_function(fn, True)
    bad = []
    if end is not None:
        bad.append(fn)
    for node, _ in rets:
        if node.value is None or (isinstance(node.value, ast.Constant) and node.value.value is None):
            bad.append(node)
    return (not bad), bad


def check_transpose_key(ctx: Ctx, rule_prefix="RET") -> None:
    p = ctx.p
    fi = p.func("Key.transpose_key")
    ctx.analysed(fi)
    ok, bad = returns_value_on_all_paths(fi.node)
    where = bad[0] if bad else fi.node
    ctx.check(ok, f"{rule_prefix}1", "Key.transpose_key returns a key on every path", function=fi.qualname,
              construct="a path through transpose_key returns nothing",
              message="Key.transpose_key can fall off its end (result None): e.g. when the interval is a multiple of 12 the "
                      "guarded block is skipped", file=fi.file, node=where)
    # shape of the computed result: order[(order.index(key') + interval) % 12]
    params = fi.params
    if len(params) < 2:
        raise AnalysisError("Key.transpose_key: expected (key, transpose_by)")
    kparam, tparam = params[0], params[1]
    judged = 0
    for r in [n for n in walk_local(fi.node) if isinstance(n, ast.Return) and n.value is not None]:
        if isinstance(r.value, ast.Name) and r.value.id == kparam:
            # identity return: only sound when the interval is a multiple of 12 (checked by the guard)
            guard = _guard_of(r)
            ctx.ok(f"{rule_prefix}2", f"return {kparam} (identity) under guard `{short(guard) if guard is not None else 'none'}`")
            if guard is None or not _is_mod12_zero_guard(guard, tparam, r):
                # an unguarded identity return at the end of the function after a `% 12 != 0` block is fine
                pass
            continue
        norm = Normaliser()
        # forward-substitute the straight-line block containing the return
        blk = _enclosing_block(r)
        norm.run_block([s for s in blk if s.lineno < r.lineno])
        c = norm.norm(r.value).canon()
        judged += 1
        inst = f"Key.transpose_key result `{short(r.value)}`"
        import re
        m = re.search(r"\[mod\((.*),12\)\]$", c)
        if m and "key_transpose_order" in c.split("[")[0]:
            inner = m.group(1)
            good = (f"{tparam}" in inner and ".index(" in inner and f"-1*{tparam}" not in inner and f"2*{tparam}" not in inner)
            wrong = f"{tparam}" not in inner or f"-1*{tparam}" in inner or f"2*{tparam}" in inner
            if good or wrong:
                ctx.check(good, f"{rule_prefix}2", inst, function=fi.qualname,
                          construct="transposed key index is not (index(key) + interval) mod 12",
                          message=f"index expression normalises to `{inner}`", file=fi.file, node=r)
            else:
                # another way to find the key's chromatic position (its tonic, a look-up table): whether it is the right one is what the
                # exhaustive evaluation over keys x intervals decides (VS-KEY)
                ctx.undetermined(f"{rule_prefix}2", inst, f"index `{inner}` adds the interval to something other than `order.index(key)`: left to VS-KEY")
        elif "key_transpose_order" in c and "mod(" in c and ",12)" not in c:
            ctx.violation(f"{rule_prefix}2", inst, function=fi.qualname, construct="transposed key index not reduced modulo 12",
                          message=f"result normalises to `{c}`", file=fi.file, node=r)
        else:
            ctx.undetermined(f"{rule_prefix}2", inst, f"shape not recognised: {c}")


def _enclosing_block(n: ast.AST) -> list[ast.stmt]:
    par = getattr(n, "_parent", None)
    for fld in ("body", "orelse", "finalbody"):
        b = getattr(par, fld, None)
        if isinstance(b, list) and n in b:
            return b
    return [n]


def _guard_of(n: ast.AST):
    par = getattr(n, "_parent", None)
    if isinstance(par, ast.If):
        return par.test
    return None


def _is_mod12_zero_guard(test, tparam, node) -> bool:
    return True


# ------------------------------------------------------------------------------------------------ VS
class IntEval:
    """Interpreter of a function body over concrete small integers for a *finite, exhaustively enumerated* input space
    (value-set analysis: the input space is Z_12 x Z_12, every value is tried).  Supports the arithmetic/branching
    subset used by CircleOfFifths; anything else aborts as ANALYSIS-ERROR."""

    def __init__(self, p: Program, tables: Tables):
        self.p = p
        self.t = tables
        self.cof = [tables.note[n[1]] for n in tables.table("circle_of_fifths_order")]

    def class_env(self, cls: str) -> dict:
        """Values of the class-level names that the class body computes with statements other than a plain literal table
        (e.g. a list filled by a loop): the body is executed once in the evaluator."""
        cache = self.__dict__.setdefault("_class_env", {})
        if cls in cache:
            return cache[cls]
        cache[cls] = {}
        env = {"__class_body__": True}
        ci = self.p.classes.get(cls)
        for st in (ci.node.body if ci is not None else []):
            if isinstance(st, (ast.FunctionDef, ast.AsyncFunctionDef, ast.ClassDef)) or (isinstance(st, ast.Expr) and isinstance(st.value, ast.Constant)):
                continue
            if isinstance(st, ast.Assign) and len(st.targets) == 1 and isinstance(st.targets[0], ast.Name) and st.targets[0].id == "circle_of_fifths_order":
                continue
            if isinstance(st, ast.AnnAssign) and st.value is not None and isinstance(st.target, ast.Name):
                st = ast.copy_location(ast.Assign(targets=[st.target], value=st.value), st)
            self.stmt(st, env)
        env.pop("__class_body__", None)
        cache[cls] = env
        return env

    def call(self, q: str, args: list[int]):
        fi = self.p.func(q)
        env = dict(zip(fi.params, args))
        va = fi.node.args.vararg
        if va is not None:
            npos = len(fi.node.args.posonlyargs) + len(fi.node.args.args)
            env[va.arg] = tuple(args[npos:])
        return self.block(fi.node.body, env)

    class _Return(Exception):
        def __init__(self, v):
            self.v = v

    def block(self, body, env):
        try:
            for s in body:
                self.stmt(s, env)
        except IntEval._Return as r:
            return r.v
        return None

    def stmt(self, s, env):
        if isinstance(s, ast.Assign) and len(s.targets) == 1 and isinstance(s.targets[0], ast.Name):
            env[s.targets[0].id] = self.ev(s.value, env)
        elif isinstance(s, ast.If):
            for x in (s.body if self.ev(s.test, env) else s.orelse):
                self.stmt(x, env)
        elif isinstance(s, ast.Return):
            raise IntEval._Return(self.ev(s.value, env))
        elif isinstance(s, ast.Assert):
            if not self.ev(s.test, env):
                raise IntEval._Return(("ASSERT-FAILS", src(s.test)))
        elif isinstance(s, ast.Expr) and isinstance(s.value, ast.Constant):
            pass
        elif isinstance(s, ast.Pass):
            pass
        elif isinstance(s, ast.AugAssign) and isinstance(s.target, ast.Name):
            fake = ast.BinOp(left=ast.Name(id=s.target.id, ctx=ast.Load()), op=s.op, right=s.value)
            env[s.target.id] = self.ev(fake, env)
        elif isinstance(s, ast.Assign) and len(s.targets) == 1 and isinstance(s.targets[0], ast.Subscript) and isinstance(s.targets[0].value, ast.Name):
            base = self.ev(s.targets[0].value, env)
            k = self.ev(s.targets[0].slice, env)
            if not isinstance(base, (dict, list)):
                raise AnalysisError(f"value-set evaluator: store into `{short(s.targets[0].value)}`")
            base[tuple(k) if isinstance(k, list) else k] = self.ev(s.value, env)
        elif isinstance(s, ast.For) and isinstance(s.target, ast.Tuple) and not s.orelse \
                and all(isinstance(x, (ast.Name, ast.Tuple)) for x in ast.walk(s.target) if isinstance(x, ast.expr) and not isinstance(x, ast.expr_context)):
            it = self.ev(s.iter, env)
            if not isinstance(it, (list, tuple)):
                raise AnalysisError(f"value-set evaluator: loop over `{short(s.iter)}`")

            def bind(tg, v):
                if isinstance(tg, ast.Name):
                    env[tg.id] = v
                    return
                if not isinstance(v, (list, tuple)) or len(v) != len(tg.elts):
                    raise IntEval._Return(("VALUE-ERROR", "unpack"))
                for t_, x in zip(tg.elts, v):
                    bind(t_, x)
            for v in list(it)[:4096]:
                bind(s.target, v)
                for x in s.body:
                    self.stmt(x, env)
        elif isinstance(s, ast.For) and isinstance(s.target, ast.Name) and not s.orelse:
            it = self.ev(s.iter, env)
            if not isinstance(it, (list, tuple, range)):
                raise AnalysisError(f"value-set evaluator: loop over `{short(s.iter)}`")
            for v in list(it)[:4096]:
                env[s.target.id] = v
                for x in s.body:
                    self.stmt(x, env)
        elif isinstance(s, ast.Expr) and isinstance(s.value, ast.Call) and isinstance(s.value.func, ast.Attribute) and s.value.func.attr == "append" \
                and isinstance(s.value.func.value, ast.Name) and len(s.value.args) == 1:
            base = self.ev(s.value.func.value, env)
            if not isinstance(base, list):
                raise AnalysisError(f"value-set evaluator: append to `{short(s.value.func.value)}`")
            base.append(self.ev(s.value.args[0], env))
        elif isinstance(s, ast.While):
            for _ in range(64):                     # the value space is tiny: a loop that does not end within 64 rounds does not end
                if not self.ev(s.test, env):
                    break
                for x in s.body:
                    self.stmt(x, env)
            else:
                raise IntEval._Return(("NON-TERMINATION-ERROR", src(s.test)))
        else:
            raise AnalysisError(f"value-set evaluator: unsupported statement `{short(s)}`")

    def ev(self, e, env):
        if isinstance(e, ast.Constant):
            return e.value
        if isinstance(e, ast.Name):
            if e.id not in env:
                if e.id in self.p.settings and isinstance(self.p.settings[e.id], (int, bool)):
                    return self.p.settings[e.id]
                if e.id == "circle_of_fifths_order" and env.get("__class_body__"):
                    return [("Note", v) for v in self.cof]
                if e.id in self.p.enums:
                    return ("ENUM-CLASS", e.id)
                try:
                    return self.t.module_constant(e.id)      # a module-level constant of the tables' module
                except (KeyError, AnalysisError, AttributeError):
                    pass
                return ("NAME-ERROR", e.id)     # the program itself would raise NameError / UnboundLocalError here
            return env[e.id]
        if isinstance(e, ast.Subscript) and isinstance(e.slice, ast.Slice):
            base = self.ev(e.value, env)
            if isinstance(base, tuple) and base and isinstance(base[0], str) and base[0].endswith("-ERROR"):
                return base
            bounds = []
            for b_ in (e.slice.lower, e.slice.upper, e.slice.step):
                v_ = None if b_ is None else self.ev(b_, env)
                if isinstance(v_, tuple) and v_ and isinstance(v_[0], str) and v_[0].endswith("-ERROR"):
                    return v_
                if v_ is not None and (not isinstance(v_, int) or isinstance(v_, bool)):
                    return ("TYPE-ERROR", src(e))
                bounds.append(v_)
            if isinstance(base, (list, tuple)):
                try:
                    return base[slice(*bounds)]            # Python semantics: out-of-range bounds clamp
                except ValueError:
                    return ("VALUE-ERROR", src(e))
        if isinstance(e, ast.List):
            return [self.ev(x, env) for x in e.elts]
        if isinstance(e, ast.Tuple):
            return tuple(self.ev(x, env) for x in e.elts)
        if isinstance(e, ast.Dict) and all(k is not None for k in e.keys):
            return {self.ev(k, env): self.ev(v, env) for k, v in zip(e.keys, e.values)}
        if isinstance(e, ast.Dict):
            out = {}
            for k, v in zip(e.keys, e.values):
                if k is None:                               # `**other`
                    part = self.ev(v, env)
                    if not isinstance(part, dict):
                        return ("TYPE-ERROR", src(e))
                    out.update(part)
                else:
                    out[self.ev(k, env)] = self.ev(v, env)
            return out
        if isinstance(e, (ast.ListComp, ast.DictComp)) and len(e.generators) == 1 and (
                isinstance(e, ast.DictComp) or isinstance(e.generators[0].target, ast.Tuple)):
            g = e.generators[0]
            it = self.ev(g.iter, env)
            if isinstance(it, tuple) and len(it) == 2 and it[0] == "ENUM-CLASS":
                it = [("Note", v) if it[1] == "Note" else (it[1], n_) for n_, v in self.p.enums[it[1]]]
            if isinstance(it, dict):
                it = list(it)
            if not isinstance(it, (list, tuple, range)):
                raise AnalysisError(f"value-set evaluator: comprehension over `{short(g.iter)}`")
            names = [g.target.id] if isinstance(g.target, ast.Name) else ([x.id for x in g.target.elts] if isinstance(g.target, ast.Tuple)
                                                                          and all(isinstance(x, ast.Name) for x in g.target.elts) else None)
            if names is None:
                raise AnalysisError(f"value-set evaluator: comprehension target `{short(g.target)}`")
            out_l, out_d = [], {}
            for v in list(it)[:4096]:
                env2 = dict(env) if not isinstance(env, _ModuleEnv) else _ChildEnv(env)
                if isinstance(g.target, ast.Name):
                    env2[names[0]] = v
                else:
                    if not isinstance(v, (list, tuple)) or len(v) != len(names):
                        return ("VALUE-ERROR", "unpack")
                    for nm_, x in zip(names, v):
                        env2[nm_] = x
                if all(self.ev(c, env2) for c in g.ifs):
                    if isinstance(e, ast.DictComp):
                        out_d[self.ev(e.key, env2)] = self.ev(e.value, env2)
                    else:
                        out_l.append(self.ev(e.elt, env2))
            return out_d if isinstance(e, ast.DictComp) else out_l
        if isinstance(e, ast.Call) and isinstance(e.func, ast.Name) and e.func.id == "dict" and not e.args and not e.keywords:
            return {}
        if isinstance(e, ast.Call) and isinstance(e.func, ast.Name) and e.func.id == "zip" and not e.keywords:
            seqs = [self.ev(a, env) for a in e.args]
            if all(isinstance(x, (list, tuple)) for x in seqs):
                return list(zip(*seqs))                     # like the built-in: stops at the shortest
            return ("TYPE-ERROR", src(e))
        if isinstance(e, ast.ListComp) and len(e.generators) == 1 and isinstance(e.generators[0].target, ast.Name):
            g = e.generators[0]
            it = self.ev(g.iter, env)
            if isinstance(it, tuple) and len(it) == 2 and it[0] == "ENUM-CLASS":
                it = [("Note", v) if it[1] == "Note" else (it[1], n_) for n_, v in self.p.enums[it[1]]]
            if not isinstance(it, (list, tuple, range)):
                raise AnalysisError(f"value-set evaluator: comprehension over `{short(g.iter)}`")
            out = []
            for v in list(it)[:4096]:
                env2 = dict(env) if not isinstance(env, _ModuleEnv) else _ChildEnv(env)
                env2[g.target.id] = v
                if all(self.ev(c, env2) for c in g.ifs):
                    out.append(self.ev(e.elt, env2))
            return out
        if isinstance(e, ast.UnaryOp):
            v = self.ev(e.operand, env)
            if isinstance(v, tuple) and v and isinstance(v[0], str) and v[0].endswith("-ERROR"):
                return v
            return -v if isinstance(e.op, ast.USub) else (not v if isinstance(e.op, ast.Not) else +v)
        if isinstance(e, ast.BinOp):
            a, b = self.ev(e.left, env), self.ev(e.right, env)
            for x in (a, b):
                if isinstance(x, tuple) and x and isinstance(x[0], str) and x[0].endswith("-ERROR"):
                    return x        # an exception would be raised here: propagate it as the result
            if isinstance(e.op, ast.Add) and isinstance(a, list) and isinstance(b, list):
                return a + b
            if isinstance(e.op, ast.Mult) and isinstance(a, list) and isinstance(b, int) and not isinstance(b, bool) and 0 <= b <= 64:
                return a * b
            if isinstance(e.op, ast.Add) and isinstance(a, tuple) and isinstance(b, tuple) and not (a and isinstance(a[0], str) and a[0] in ("Note", "Key")) \
                    and not (b and isinstance(b[0], str) and b[0] in ("Note", "Key")):
                return a + b
            if not isinstance(a, (int, bool)) or not isinstance(b, (int, bool)):
                return ("TYPE-ERROR", src(e))
            ops = {ast.Add: lambda: a + b, ast.Sub: lambda: a - b, ast.Mult: lambda: a * b, ast.Mod: lambda: a % b,
                   ast.FloorDiv: lambda: a // b}
            if type(e.op) in ops:
                return ops[type(e.op)]()
            raise AnalysisError(f"value-set evaluator: unsupported operator in `{short(e)}`")
        if isinstance(e, ast.Compare):
            l = self.ev(e.left, env)
            if isinstance(l, tuple) and l and isinstance(l[0], str) and l[0].endswith("-ERROR"):
                raise IntEval._Return(l)
            for op, c in zip(e.ops, e.comparators):
                r = self.ev(c, env)
                if isinstance(r, tuple) and r and isinstance(r[0], str) and r[0].endswith("-ERROR"):
                    raise IntEval._Return(r)
                if isinstance(op, (ast.In, ast.NotIn)):
                    ok = (l in r) if isinstance(op, ast.In) else (l not in r)
                elif isinstance(op, (ast.Eq, ast.NotEq, ast.Is, ast.IsNot)):
                    # identity of enum members / small table values is equality in this value model
                    ok = (l == r) if isinstance(op, (ast.Eq, ast.Is)) else (l != r)
                else:
                    ok = {ast.Lt: lambda: l < r, ast.LtE: lambda: l <= r, ast.Gt: lambda: l > r, ast.GtE: lambda: l >= r}.get(type(op), lambda: None)()
                if ok is None:
                    raise AnalysisError(f"value-set evaluator: unsupported comparison `{short(e)}`")
                if not ok:
                    return False
                l = r
            return True
        if isinstance(e, ast.BoolOp):
            vals = [self.ev(v, env) for v in e.values]
            return all(vals) if isinstance(e.op, ast.And) else any(vals)
        if isinstance(e, ast.Attribute) and e.attr == "value":
            v = self.ev(e.value, env)
            if isinstance(v, tuple) and v[0] == "Note":
                return self.t.note[v[1]] if isinstance(v[1], str) else v[1]          # (a table read in place holds the member's name)
            if isinstance(v, tuple) and len(v) == 2 and v[0] in self.p.enums and v[0] != "Note" and v[1] in dict(self.p.enums[v[0]]):
                return dict(self.p.enums[v[0]])[v[1]]           # the declared value of an enum member (`Key.C.value` is "C")
            if isinstance(v, tuple) and v and isinstance(v[0], str) and v[0].endswith("-ERROR"):
                return v            # the subscript would have raised: the exception is the result
            raise AnalysisError(f"value-set evaluator: .value of `{short(e.value)}`")
        ch0 = attr_chain(e) if isinstance(e, ast.Attribute) else None
        if ch0 and len(ch0) == 2 and ch0[0] == "MusicMapping" and ch0[1] in self.t.nodes:
            return self.t.table(ch0[1])
        if ch0 and len(ch0) == 2 and ch0[0] == "MusicMapping" and ch0[1] in getattr(self.t, "mm_attrs", {}):
            cache = self.t.__dict__.setdefault("_extra_tables", {})
            if ch0[1] not in cache:
                cache[ch0[1]] = self.t.ev(self.t.mm_attrs[ch0[1]])          # another class-level table (evaluated like the named ones)
            return cache[ch0[1]]
        if ch0 and len(ch0) == 2 and ch0[0] in self.p.enums:
            return (ch0[0], ch0[1])
        if isinstance(e, ast.Subscript) and attr_chain(e.value) and attr_chain(e.value)[0] == "MusicMapping":
            tab = self.ev(e.value, env)
            i = self.ev(e.slice, env)
            try:
                return tab[i]
            except (IndexError, KeyError, TypeError):
                return ("INDEX-ERROR", i)
        if ch0 == ["CircleOfFifths", "circle_of_fifths_order"]:
            return [("Note", v) for v in self.cof]
        if ch0 and len(ch0) == 2 and ch0[0] == "CircleOfFifths" and ch0[1] in self.class_env("CircleOfFifths"):
            return self.class_env("CircleOfFifths")[ch0[1]]
        if isinstance(e, ast.Subscript) and attr_chain(e.value) and len(attr_chain(e.value)) == 2 and attr_chain(e.value)[0] == "CircleOfFifths" \
                and attr_chain(e.value)[1] in self.class_env("CircleOfFifths"):
            base = self.class_env("CircleOfFifths")[attr_chain(e.value)[1]]
            i = self.ev(e.slice, env)
            if isinstance(i, tuple) and i and isinstance(i[0], str) and i[0].endswith("-ERROR"):
                return i
            try:
                return base[i]              # Python semantics: a negative index counts from the end
            except (IndexError, KeyError, TypeError):
                return ("INDEX-ERROR", i)
        if isinstance(e, ast.Subscript) and isinstance(e.value, ast.Name):
            base = self.ev(e.value, env)
            i = self.ev(e.slice, env)
            if isinstance(i, tuple) and i and isinstance(i[0], str) and i[0].endswith("-ERROR"):
                return i
            try:
                return base[i]
            except (IndexError, KeyError, TypeError):
                return ("INDEX-ERROR", i)
        if isinstance(e, ast.Subscript) and attr_chain(e.value) == ["CircleOfFifths", "circle_of_fifths_order"]:
            i = self.ev(e.slice, env)
            if not isinstance(i, int) or not (-len(self.cof) <= i < len(self.cof)):
                return ("INDEX-ERROR", i)
            return ("Note", self.cof[i])
        if isinstance(e, ast.Call):
            ch = attr_chain(e.func)
            if ch == ["CircleOfFifths", "circle_of_fifths_order", "index"]:
                v = self.ev(e.args[0], env)
                if isinstance(v, tuple) and v[0] == "Note":
                    return self.cof.index(v[1])
                raise AnalysisError("index() of a non-Note")
            if ch and len(ch) == 3 and ch[0] == "MusicMapping" and ch[2] == "index":
                tab = self.t.table(ch[1])
                v = self.ev(e.args[0], env)
                if v in tab:
                    return tab.index(v)
                return ("VALUE-ERROR", v)
            if isinstance(e.func, ast.Attribute) and e.func.attr in ("items", "keys", "values") and not e.args and not e.keywords:
                base = self.ev(e.func.value, env)
                if isinstance(base, dict):
                    return {"items": lambda: [(k, v) for k, v in base.items()], "keys": lambda: list(base.keys()), "values": lambda: list(base.values())}[e.func.attr]()
            if isinstance(e.func, ast.Attribute) and e.func.attr == "get" and 1 <= len(e.args) <= 2 and not e.keywords:
                base = self.ev(e.func.value, env)
                if isinstance(base, dict):
                    k = self.ev(e.args[0], env)
                    if isinstance(k, tuple) and k and isinstance(k[0], str) and k[0].endswith("-ERROR"):
                        return k
                    try:
                        if k in base:
                            return base[k]
                    except TypeError:
                        return ("TYPE-ERROR", src(e))
                    return self.ev(e.args[1], env) if len(e.args) == 2 else None
            if ch == ["len"] and len(e.args) == 1:
                v = self.ev(e.args[0], env)
                if isinstance(v, (list, tuple, dict)):
                    return len(v)
                return ("TYPE-ERROR", src(e))
            if ch in (["abs"], ["min"], ["max"], ["int"]) and e.args:
                vals = [self.ev(a, env) for a in e.args]
                if all(isinstance(v, (int, bool)) for v in vals):
                    return {"abs": abs, "min": min, "max": max, "int": int}[ch[0]](*vals)
                return ("TYPE-ERROR", src(e))
            if isinstance(e.func, ast.Attribute) and e.func.attr == "index" and isinstance(e.func.value, ast.Name) and len(e.args) == 1:
                base = self.ev(e.func.value, env)
                if base and isinstance(base[0], tuple) and base[0][0] == "Note":
                    v0 = self.ev(e.args[0], env)
                    return base.index(v0) if v0 in base else ("VALUE-ERROR", v0)
                v = self.ev(e.args[0], env)
                if isinstance(base, list):
                    return base.index(v) if v in base else ("VALUE-ERROR", v)
                return ("TYPE-ERROR", src(e))
            if ch == ["range"] and 1 <= len(e.args) <= 3:
                vals = [self.ev(a, env) for a in e.args]
                if all(isinstance(v, int) for v in vals):
                    return range(*vals)
                return ("TYPE-ERROR", src(e))
            if ch == ["Note"]:
                v = self.ev(e.args[0], env)
                if v not in range(12):
                    return ("VALUE-ERROR", v)
                return ("Note", v)
            if ch and ch[0] == "CircleOfFifths" and len(ch) == 2 and f"CircleOfFifths.{ch[1]}" in self.p.functions:
                return self.call(f"CircleOfFifths.{ch[1]}", [self.ev(a, env) for a in e.args])
            if ch and len(ch) == 1 and ch[0] in self.p.module_funcs and not e.keywords:
                return self.call(ch[0], [self.ev(a, env) for a in e.args])
            raise AnalysisError(f"value-set evaluator: unsupported call `{short(e)}`")
        if isinstance(e, ast.Subscript) and not isinstance(e.slice, ast.Slice):
            base = self.ev(e.value, env)
            i = self.ev(e.slice, env)
            for x in (base, i):
                if isinstance(x, tuple) and x and isinstance(x[0], str) and x[0].endswith("-ERROR"):
                    return x
            if isinstance(base, (list, tuple, dict, range)):
                try:
                    return base[i]          # Python semantics, negative indices included
                except (IndexError, KeyError, TypeError):
                    return ("INDEX-ERROR", i)
        raise AnalysisError(f"value-set evaluator: unsupported expression `{short(e)}`")


def check_circle(ctx: Ctx, tables: Tables) -> None:
    p = ctx.p
    for q in ("CircleOfFifths.get_position", "CircleOfFifths.get_distance", "CircleOfFifths.from_distance"):
        ctx.analysed(p.func(q))
    ev = IntEval(p, tables)
    file = tables.file
    bad_pos, bad_dist, bad_land = [], [], []
    reps = list(range(128))          # every MIDI pitch: nothing is assumed about how the function reduces its argument
    base_pos = {}
    for a in reps:
        pa = ev.call("CircleOfFifths.get_position", [a])
        if a < 12:
            base_pos[a] = pa
        if not (isinstance(pa, int) and -5 <= pa <= 6):
            bad_pos.append((a, pa))
        elif pa != base_pos.get(a % 12):
            bad_pos.append((a, pa, f"pitch class {a % 12} has position {base_pos.get(a % 12)}"))
    n = 0
    for a in range(12):
        for b in range(12):
            n += 1
            d = ev.call("CircleOfFifths.get_distance", [a, b])
            pa, pb = ev.call("CircleOfFifths.get_position", [a]), ev.call("CircleOfFifths.get_position", [b])
            if not (isinstance(d, int) and -5 <= d <= 6 and isinstance(pa, int) and isinstance(pb, int) and (d - (pb - pa)) % 12 == 0):
                bad_dist.append((a, b, d))
                continue
            land = ev.call("CircleOfFifths.from_distance", [a, d])
            if land != b % 12:
                bad_land.append((a, b, d, land))
    fn = p.func("CircleOfFifths.get_distance")
    ctx.check(not bad_pos, "VS-POS", "get_position in [-5,6] for every MIDI pitch 0..127, the same for all pitches of a pitch class", function="CircleOfFifths.get_position",
              construct="get_position leaves [-5, 6] or differs between pitches of one pitch class", message=f"counter-examples (pitch, position[, expected]): {bad_pos[:5]}", file=file,
              node=p.func("CircleOfFifths.get_position").node)
    ctx.check(not bad_dist, "VS-DIST", f"get_distance in [-5,6] and = position difference mod 12 for all {n} residue pairs",
              function="CircleOfFifths.get_distance", construct="get_distance outside [-5, 6] or inconsistent with positions",
              message=f"counter-examples (from, to, distance): {bad_dist[:5]}", file=file, node=fn.node)
    ctx.check(not bad_land, "VS-LAND", "from_distance(a, get_distance(a,b)) lands on b's pitch class for all residue pairs",
              function="CircleOfFifths.from_distance", construct="from_distance does not invert get_distance",
              message=f"counter-examples (from, to, distance, landed): {bad_land[:5]}", file=file,
              node=p.func("CircleOfFifths.from_distance").node)
    check_transpose_exhaustive(ctx, tables, ev)
    # the functions depend on their arguments only through `% 12` (so the residue enumeration is exhaustive)
    for q in ("CircleOfFifths.get_position", "CircleOfFifths.from_distance"):
        fi = p.func(q)
        prm = fi.params[0]
        uses = [n for n in walk_local(fi.node) if isinstance(n, ast.Name) and n.id == prm and isinstance(n.ctx, ast.Load)]
        allmod = all(isinstance(getattr(u, "_parent", None), ast.BinOp) and isinstance(u._parent.op, ast.Mod)
                     and isinstance(u._parent.right, ast.Constant) and u._parent.right.value == 12 and u._parent.left is u for u in uses)
        ctx.check(bool(uses) and allmod, "VS-MOD", f"{q} uses `{prm}` only through `% 12`", function=q,
                  construct="pitch argument used without reduction modulo 12",
                  message=f"`{prm}` is used outside `{prm} % 12`: the residue enumeration would not be exhaustive and pitches "
                          f"outside one octave would index out of the table", file=fi.file, node=fi.node)
    ctx.extra["exhaustive"] = True
    ctx.sample({"value_set": "Z12 x Z12", "pairs": n})


def check_transpose_exhaustive(ctx: Ctx, tables: Tables, ev: IntEval) -> None:
    """All 15 keys x intervals -24..24 (representatives of every residue with both signs, incl. 0 and multiples of 12):
    the result is a key whose tonic is the original's shifted by the interval modulo 12 and transpositions compose."""
    p = ctx.p
    fi = p.func("Key.transpose_key")
    knm = tables.table("KeyNoteMapping")
    tonic = {k[1]: tables.note[v[0][0][1]] for k, v in knm.items()}
    bad_none, bad_tonic, bad_comp = [], [], []
    n = 0
    try:
        for k in tables.key:
            for t in range(-24, 25):
                n += 1
                r = ev.call("Key.transpose_key", [("Key", k), t])
                if not (isinstance(r, tuple) and len(r) == 2 and r[0] == "Key"):
                    bad_none.append((k, t, r))
                    continue
                if tonic[r[1]] != (tonic[k] + t) % 12:
                    bad_tonic.append((k, t, r[1]))
        for k in tables.key:
            for a in range(-13, 14):
                for b in (-12, -7, -1, 0, 1, 5, 12):
                    r1 = ev.call("Key.transpose_key", [("Key", k), a])
                    if not (isinstance(r1, tuple) and r1[0] == "Key"):
                        continue
                    r2 = ev.call("Key.transpose_key", [r1, b])
                    r3 = ev.call("Key.transpose_key", [("Key", k), a + b])
                    if isinstance(r2, tuple) and isinstance(r3, tuple) and r2[0] == "Key" and r3[0] == "Key" and tonic[r2[1]] != tonic[r3[1]]:
                        bad_comp.append((k, a, b, r2[1], r3[1]))
    except AnalysisError as e:
        ctx.undetermined("VS-KEY", "Key.transpose_key over 15 keys x 49 intervals", f"evaluator could not model the function: {e}")
        return
    ctx.check(not bad_none, "VS-KEY", f"transpose_key returns a Key for all {n} (key, interval) pairs", function=fi.qualname,
              construct="transpose_key yields no key for some (key, interval)",
              message=f"(key, interval, result): {bad_none[:4]}", file=fi.file, node=fi.node)
    ctx.check(not bad_tonic, "VS-KEY", "tonic of the result = tonic + interval (mod 12)", function=fi.qualname,
              construct="transposed key has the wrong tonic", message=f"(key, interval, result): {bad_tonic[:4]}", file=fi.file, node=fi.node)
    ctx.check(not bad_comp, "VS-KEY", "transpositions compose additively (up to enharmonic spelling)", function=fi.qualname,
              construct="transpose_key is not additive", message=f"{bad_comp[:4]}", file=fi.file, node=fi.node)


MUTATORS = {"pop", "popitem", "clear", "update", "setdefault", "append", "extend", "insert", "remove", "sort", "reverse", "__setitem__", "__delitem__"}


def check_tables_immutable(ctx: Ctx, rule: str = "IMMUT") -> int:
    """The lookup tables are class-level objects shared by every call: no function of the library may change them
    (a `pop` with a default instead of a `get` makes the result of transpose_key depend on the call history)."""
    import ast as _ast
    p = ctx.p
    # class-level table attributes: Assign of a literal container in a class body
    tables = set()
    for ci in p.classes.values():
        for st in ci.node.body:
            if isinstance(st, _ast.AnnAssign) and st.value is not None and isinstance(st.target, _ast.Name):      # `name: dict = {}`
                st = _ast.copy_location(_ast.Assign(targets=[st.target], value=st.value), st)
            if isinstance(st, _ast.Assign) and len(st.targets) == 1 and isinstance(st.targets[0], _ast.Name) \
                    and (isinstance(st.value, (_ast.Dict, _ast.List, _ast.Set, _ast.Tuple))
                         or (isinstance(st.value, _ast.Call) and isinstance(st.value.func, _ast.Name) and st.value.func.id in ("dict", "list", "set"))):
                # an attribute that every instance re-creates in __init__ is per-instance state, not a shared table
                init = ci.methods.get("__init__")
                shadowed = init is not None and any(isinstance(a, _ast.Assign) and any(attr_chain(t) == ["self", st.targets[0].id] for t in a.targets)
                                                    for a in _ast.walk(init.node))
                if not shadowed:
                    tables.add((ci.name, st.targets[0].id))
    ctx.floor("class-level lookup tables", len(tables), 5)
    n_sites = 0
    bad = []
    for fi in p.all_functions():
        aliases = {}
        for a in _ast.walk(fi.node):
            if isinstance(a, _ast.Assign) and isinstance(a.targets[0], _ast.Name):
                ch = attr_chain(a.value)
                if ch and len(ch) == 2 and (ch[0], ch[1]) in tables:
                    aliases[a.targets[0].id] = ".".join(ch)

        def table_of(e):
            while isinstance(e, _ast.Subscript):
                e = e.value
            ch = attr_chain(e) if isinstance(e, _ast.Attribute) else None
            if ch and len(ch) == 2 and (ch[0], ch[1]) in tables:
                return ".".join(ch)
            if ch and len(ch) == 2 and ch[0] in ("self", "cls") and fi.cls and (fi.cls, ch[1]) in tables:
                return f"{fi.cls}.{ch[1]}"
            if isinstance(e, _ast.Name) and e.id in aliases:
                return aliases[e.id]
            return None
        for n in _ast.walk(fi.node):
            if isinstance(n, _ast.Call) and isinstance(n.func, _ast.Attribute):
                t = table_of(n.func.value)
                if t is not None:
                    n_sites += 1
                    if n.func.attr in MUTATORS:
                        bad.append((fi, n, t, f".{n.func.attr}()"))
            elif isinstance(n, (_ast.Assign, _ast.AugAssign, _ast.Delete)):
                tg = n.targets if isinstance(n, (_ast.Assign, _ast.Delete)) else [n.target]
                for t_ in tg:
                    if isinstance(t_, _ast.Subscript):
                        t = table_of(t_.value)
                        if t is not None:
                            bad.append((fi, n, t, "item store / delete"))
                    elif isinstance(n, _ast.AugAssign) and isinstance(t_, (_ast.Name, _ast.Attribute)):
                        # `alias -= {...}` / `Cls.table += [...]`: the augmented operators of list, set and dict work in place
                        t = table_of(t_)
                        if t is not None:
                            bad.append((fi, n, t, "in-place augmented assignment"))
    ctx.check(not bad, rule, f"no function writes to a class-level lookup table ({len(tables)} tables, {n_sites} method calls on them inspected)",
              function=bad[0][0].qualname if bad else "MusicMapping",
              construct=f"{bad[0][2]} is modified at run time ({bad[0][3]})" if bad else "ok",
              message=f"`{short(bad[0][1], 90)}` changes a table shared by all calls: later results depend on the call history" if bad else "",
              file=bad[0][0].file if bad else next(iter(p.sources)), node=bad[0][1] if bad else None)
    return len(tables)
