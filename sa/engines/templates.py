"""TPL -- token templates: abstract string interpretation of the tokeniser's emitter and vocabulary builder.

An abstract token is a tuple of *parts* joined by "-"; a part is (prefix member, (field, ...)), a field is
(domain tag, format spec).  Domain tags name where a value ranges: TRACK(num_tracks), PITCH(pitch_range),
VALUE(note_values), VELOCITY(velocity_bins), REST(step_sizes), TSG(time_signature_range), CONST(text).

Both string builders are interpreted for each assignment of the four boolean configuration flags (conditions on
`self.flag_*` are decided, data-dependent conditions fork).  The emitter's field domains are established by the
guards that dominate the emission (raise otherwise) or by provenance (element of the very list the vocabulary
iterates).  If a builder uses a construct the interpreter does not model, the result is ANALYSIS-ERROR, never a verdict.
"""
from __future__ import annotations

import ast
import itertools
from dataclasses import dataclass, field

from ..absint import AbsInt, _Frame
from ..astutil import attr_chain, call_method, enum_member, short, src, ancestors
from ..model import Program, FuncInfo, AnalysisError, walk_local

FLAGS = ("flag_fuse_track", "flag_fuse_value", "flag_fuse_velocity", "flag_running_values")
TOK = "MultiTrackLargeVocabularyNotelikeTokeniser"

# an abstract string: tuple of segments; segment = ("lit", text) | ("pre", member) | ("fld", domain, spec)


def seg_text(s) -> str:
    if s[0] == "lit":
        return s[1]
    if s[0] == "pre":
        return f"<{s[1]}>"
    return "{" + f"{s[1]}:{s[2]}" + "}"


def show(t) -> str:
    return "".join(seg_text(s) for s in t)


def strip_last_char(t, what="-"):
    if not t:
        raise AnalysisError("token[:-1] applied to an empty abstract string")
    last = t[-1]
    if last[0] != "lit" or not last[1]:
        # the cut eats into a formatted field or a prefix: what remains is no token of the grammar; keep it visible as such
        return t[:-1] + (("fld", f"TRUNCATED({seg_text(last)})", "!cut"),)
    rest = last[1][:-1]
    return t[:-1] + ((("lit", rest),) if rest else ())


def parse_parts(t, prefixes: dict[str, str]):
    """Abstract string -> tuple of parts ((prefix, ((domain, spec), ...)), ...) following the token grammar
    part ('-' part)* ; part = prefix ('_' field)*.  Returns None if the string does not follow the grammar."""
    # flatten into a sequence of atoms: PRE(member), FLD(d,s), and single characters of literals
    atoms = []
    for s in t:
        if s[0] == "lit":
            atoms.extend(("ch", c) for c in s[1])
        else:
            atoms.append(s)
    parts = []
    i = 0
    n = len(atoms)
    while i < n:
        if atoms[i][0] != "pre":
            return None
        pre = atoms[i][1]
        i += 1
        flds = []
        while i < n and atoms[i] == ("ch", "_"):
            i += 1
            if i < n and atoms[i][0] == "fld":
                flds.append((atoms[i][1], atoms[i][2]))
                i += 1
            else:
                # literal field text (e.g. a formatted constant)
                txt = ""
                while i < n and atoms[i][0] == "ch" and atoms[i][1] not in "-_":
                    txt += atoms[i][1]
                    i += 1
                if not txt:
                    return None
                flds.append((f"CONST({txt})", ""))
        parts.append((pre, tuple(flds)))
        if i < n:
            if atoms[i] != ("ch", "-"):
                return None
            i += 1
            if i >= n:
                return ("TRAILING-SEPARATOR", tuple(parts))
    return tuple(parts)


class FlagEval:
    def __init__(self, flags: dict[str, bool], extra: dict[str, bool] | None = None):
        self.flags = flags
        self.extra = extra or {}

    def truth(self, e: ast.AST) -> bool | None:
        ch = attr_chain(e)
        if ch and len(ch) == 2 and ch[0] == "self" and ch[1] in self.flags:
            return self.flags[ch[1]]
        if isinstance(e, ast.Name) and e.id in self.extra:
            return self.extra[e.id]
        if isinstance(e, ast.UnaryOp) and isinstance(e.op, ast.Not):
            r = self.truth(e.operand)
            return None if r is None else not r
        if isinstance(e, ast.BoolOp):
            vals = [self.truth(v) for v in e.values]
            if isinstance(e.op, ast.And):
                if any(v is False for v in vals):
                    return False
                return True if all(v is True for v in vals) else None
            if any(v is True for v in vals):
                return True
            return False if all(v is False for v in vals) else None
        if isinstance(e, ast.Constant) and isinstance(e.value, bool):
            return e.value
        return None


class StrList:
    """A local list of token parts: the set of possible contents, each a tuple of abstract strings (joined later with a separator)."""
    __slots__ = ("alts",)

    def __init__(self, alts):
        self.alts = frozenset(alts)

    def __eq__(self, o):
        return isinstance(o, StrList) and o.alts == self.alts

    def __hash__(self):
        return hash(self.alts)


class StringInterp(AbsInt):
    """State: dict var -> frozenset of abstract strings (string variables only) + '$popped' counters for product parts."""

    def __init__(self, p: Program, fi: FuncInfo, flags: dict[str, bool], field_domain, out_lists: set[str], extra=None,
                 dict_attr: str | None = None):
        super().__init__()
        self.p = p
        self.fi = fi
        self.fe = FlagEval(flags, extra)
        self.field_domain = field_domain          # callable(expr, interp, state) -> domain tag
        self.out_lists = out_lists
        self.dict_attr = dict_attr
        self.emitted: dict[tuple, ast.AST] = {}
        self.nested: dict[str, ast.FunctionDef] = {}
        self.prefix_values = dict(p.enums.get("TokenisationPrefixes") or [])
        self.insert_events: list = []

    def join(self, a, b):
        out = dict(a)
        for k, v in b.items():
            if k in out and isinstance(v, frozenset) and isinstance(out[k], frozenset):
                out[k] = out[k] | v
            elif k in out and isinstance(v, StrList) and isinstance(out[k], StrList):
                out[k] = StrList(out[k].alts | v.alts)
            elif k not in out:
                out[k] = v
            elif out[k] != v:
                out[k] = v if not isinstance(v, frozenset) else out[k]
        return out

    def copy(self, s):
        return dict(s)

    def equal(self, a, b):
        return a == b

    def on_nested_def(self, node, st):
        self.nested[node.name] = node
        return st

    # -- abstract strings
    def fstring(self, e: ast.JoinedStr, st) -> tuple:
        segs = []
        for v in e.values:
            if isinstance(v, ast.Constant):
                if v.value:
                    segs.append(("lit", str(v.value)))
            elif isinstance(v, ast.FormattedValue):
                m = enum_member(v.value, "TokenisationPrefixes")
                if m is not None and attr_chain(v.value)[-1] == "value":
                    segs.append(("pre", m))
                    continue
                spec = ""
                if v.format_spec is not None:
                    bits = []
                    for x in v.format_spec.values:
                        if isinstance(x, ast.Constant):
                            bits.append(str(x.value))
                        elif isinstance(x, ast.FormattedValue) and isinstance(x.value, ast.Name) and x.value.id in getattr(self, "int_locals", {}) \
                                and x.format_spec is None and x.conversion == -1:
                            bits.append(str(self.int_locals[x.value.id]))       # `{value:0{width}}` with the width known for this row
                        else:
                            raise AnalysisError(f"{self.fi.qualname}: format specification of `{short(v.value)}` is computed at run time")
                    spec = "".join(bits)
                if not spec and v.conversion == -1:
                    known = self.strings(v.value, st) if isinstance(v.value, (ast.Name, ast.Attribute)) else None
                    if known is not None and len(known) == 1:
                        segs.extend(next(iter(known)))           # a local holding a prefix (or another modelled string), spliced in as it is
                        continue
                if isinstance(v.value, ast.Name) and v.value.id in self.p.settings and isinstance(self.p.settings[v.value.id], int):
                    segs.append(("lit", format(self.p.settings[v.value.id], spec)))
                    continue
                dom = self.field_domain(v.value, self, st)
                segs.append(("fld", dom, spec))
            else:
                raise AnalysisError("unmodelled f-string component")
        return tuple(segs)

    def strings(self, e: ast.AST, st) -> frozenset | None:
        if isinstance(e, ast.Constant) and isinstance(e.value, str):
            return frozenset([(("lit", e.value),) if e.value else ()])
        if isinstance(e, ast.JoinedStr):
            return frozenset([self.fstring(e, st)])
        if isinstance(e, ast.Name) and isinstance(st.get(e.id), frozenset):
            return st[e.id]
        m = enum_member(e, "TokenisationPrefixes")
        if m is not None and attr_chain(e)[-1] == "value":
            return frozenset([(("pre", m),)])
        if isinstance(e, ast.Attribute) and e.attr == "value" and isinstance(e.value, ast.Name) and isinstance(st.get(e.value.id), tuple) \
                and st[e.value.id] and st[e.value.id][0] == "$members":
            return frozenset((("pre", m_),) for m_ in st[e.value.id][1])       # loop variable over a tuple of prefix members
        if isinstance(e, ast.BinOp) and isinstance(e.op, ast.Add):
            a, b = self.strings(e.left, st), self.strings(e.right, st)
            if a is None or b is None:
                return None
            return frozenset(x + y for x in a for y in b)
        if isinstance(e, ast.Subscript) and isinstance(e.slice, ast.Slice) and e.slice.lower is None and e.slice.step is None \
                and isinstance(e.slice.upper, ast.UnaryOp) and isinstance(e.slice.upper.op, ast.USub) and isinstance(e.slice.upper.operand, ast.Constant) \
                and isinstance(e.slice.upper.operand.value, int) and 1 <= e.slice.upper.operand.value <= 8:
            a = self.strings(e.value, st)
            if a is None:
                return None
            out = set()
            for x in a:
                for _ in range(e.slice.upper.operand.value):      # token[:-k] drops the last k characters
                    if x:
                        x = strip_last_char(x)
                out.add(x)
            return frozenset(out)
        if isinstance(e, ast.Call) and call_method(e)[1] == "join" and isinstance(call_method(e)[0], ast.Constant) and isinstance(call_method(e)[0].value, str) \
                and len(e.args) == 1 and isinstance(e.args[0], ast.Name) and isinstance(st.get(e.args[0].id), StrList):
            sep = call_method(e)[0].value
            out = set()
            for alt in st[e.args[0].id].alts:
                acc = ()
                for i, piece in enumerate(alt):
                    if i and sep:
                        acc = acc + (("lit", sep),)
                    acc = acc + piece
                out.add(acc)
            return frozenset(out)
        if isinstance(e, ast.Call):
            recv, name = call_method(e)
            if recv is not None and name in ("rstrip", "removesuffix", "strip") and e.args and isinstance(e.args[0], ast.Constant) and e.args[0].value == "-":
                a = self.strings(recv, st)
                if a is None:
                    return None
                out = set()
                for x in a:
                    while x and x[-1][0] == "lit" and x[-1][1].endswith("-"):
                        x = strip_last_char(x)
                        if name == "removesuffix":
                            break
                    out.add(x)
                return frozenset(out)
        return None

    def emit(self, e: ast.AST, st, node):
        ss = self.strings(e, st)
        if ss is None:
            raise AnalysisError(f"{self.fi.qualname}: token expression `{short(e)}` is outside the template interpreter's model")
        for s in ss:
            self.emitted.setdefault(s, node)

    def emit_list(self, e: ast.AST, st, node):
        """`out.extend(<e>)`: list displays contribute their elements; output lists were emitted when they were appended to."""
        parts = [e]
        while parts:
            x = parts.pop()
            if isinstance(x, ast.BinOp) and isinstance(x.op, ast.Add):
                parts += [x.left, x.right]
            elif isinstance(x, (ast.List, ast.Tuple)):
                for el in x.elts:
                    self.emit(el, st, node)
            elif isinstance(x, ast.Name) and x.id in self.out_lists:
                continue
            else:
                raise AnalysisError(f"{self.fi.qualname}: `{short(node)}` extends the result with something outside the template interpreter's model")

    # -- statements
    def stmt(self, s, st):
        if isinstance(s, ast.Assign) and len(s.targets) == 1:
            t = s.targets[0]
            if isinstance(t, ast.Name) and isinstance(s.value, ast.List) and not s.value.elts and t.id not in self.out_lists \
                    and self._is_part_list(t.id):
                st[t.id] = StrList([()])
                return st
            if isinstance(t, ast.Name) and t.id in self.out_lists and isinstance(s.value, ast.BinOp):
                self.emit_list(s.value, st, s)
                return st
            if isinstance(t, ast.Name) and self.members_of(s.value, st) is not None and not isinstance(s.value, ast.Name):
                st[t.id] = ("$members", self.members_of(s.value, st))
                return st
            if isinstance(t, ast.Name):
                ss = self.strings(s.value, st)
                if ss is not None:
                    st[t.id] = ss
                else:
                    st.pop(t.id, None) if isinstance(st.get(t.id), frozenset) else None
                    self.other_assign(t.id, s.value, st)
            elif isinstance(t, ast.Subscript) and self.dict_attr and attr_chain(t.value) == ["self", self.dict_attr]:
                self.emit(t.slice, st, s)
                self.insert_events.append(("insert", s, src(s.value)))
            self.scan_calls(s.value, st)
            return st
        if isinstance(s, ast.AugAssign):
            if isinstance(s.target, ast.Name) and isinstance(st.get(s.target.id), frozenset) and isinstance(s.op, ast.Add):
                b = self.strings(s.value, st)
                if b is None:
                    raise AnalysisError(f"{self.fi.qualname}: `{short(s)}` appends a non-modelled string")
                st[s.target.id] = frozenset(x + y for x in st[s.target.id] for y in b)
            elif self.dict_attr and attr_chain(s.target) is not None and attr_chain(s.target)[-1] in ("_dictionary_size", "dictionary_size"):
                self.insert_events.append(("incr", s, src(s.value)))
            self.scan_calls(s.value, st)
            return st
        if isinstance(s, ast.Expr):
            c = s.value
            if isinstance(c, ast.Call) and call_method(c)[1] == "append" and isinstance(call_method(c)[0], ast.Name) and len(c.args) == 1 \
                    and isinstance(st.get(call_method(c)[0].id), StrList):
                b = self.strings(c.args[0], st)
                if b is None:
                    raise AnalysisError(f"{self.fi.qualname}: `{short(s)}` appends a non-modelled string to a list of token parts")
                st[call_method(c)[0].id] = StrList(alt + (x,) for alt in st[call_method(c)[0].id].alts for x in b)
                return st
            self.scan_calls(s.value, st)
            return st
        return st

    def _is_part_list(self, name: str) -> bool:
        """A local list that is only ever appended to and joined with a separator (a token assembled from parts)."""
        joined = any(isinstance(c, ast.Call) and call_method(c)[1] == "join" and c.args and isinstance(c.args[0], ast.Name) and c.args[0].id == name
                     for c in ast.walk(self.fi.node))
        return joined

    def other_assign(self, name, value, st):
        pass

    def scan_calls(self, e: ast.AST, st):
        for c in ast.walk(e):
            if isinstance(c, ast.Call):
                recv, name = call_method(c)
                if isinstance(recv, ast.Name) and recv.id in self.out_lists and name == "append" and c.args:
                    self.emit(c.args[0], st, c)
                elif isinstance(recv, ast.Name) and recv.id in self.out_lists and name == "extend" and c.args:
                    self.emit_list(c.args[0], st, c)
                elif recv is None and name in self.nested:
                    # parameters of the nested function: modelled strings are bound in the state, flag-valued arguments in the flag evaluator
                    fn = self.nested[name]
                    params = [a.arg for a in fn.args.args]
                    bound = list(zip(params, c.args)) + [(k.arg, k.value) for k in c.keywords if k.arg in params]
                    saved = dict(self.fe.extra)
                    for prm, arg in bound:
                        ss = self.strings(arg, st)
                        if ss is not None:
                            st[prm] = ss
                        tv = self.fe.truth(arg)
                        if tv is not None:
                            self.fe.extra[prm] = tv
                        else:
                            self.fe.extra.pop(prm, None)
                    self.inline(fn, st)
                    self.fe.extra.clear()
                    self.fe.extra.update(saved)

    def inline(self, fn: ast.FunctionDef, st):
        fr = _Frame()
        self._frames.append(fr)
        end = self.block(fn.body, st)
        self._frames.pop()
        self._frames[-1].raises.extend(fr.raises)
        out = end
        for _, s2 in fr.returns:
            out = self.jn(out, s2)
        if out is not None:
            st.clear()
            st.update(out)

    def cond(self, test, st):
        t = self.fe.truth(test)
        if t is True:
            return dict(st), None
        if t is False:
            return None, dict(st)
        # `token.endswith("-")` on a modelled string variable: split the set of possible strings
        neg = False
        c = test
        if isinstance(c, ast.UnaryOp) and isinstance(c.op, ast.Not):
            neg, c = True, c.operand
        if isinstance(c, ast.Call) and isinstance(c.func, ast.Attribute) and c.func.attr == "endswith" and isinstance(c.func.value, ast.Name) \
                and isinstance(st.get(c.func.value.id), frozenset) and len(c.args) == 1 and isinstance(c.args[0], ast.Constant) \
                and isinstance(c.args[0].value, str):
            v, suf = c.func.value.id, c.args[0].value
            yes = frozenset(x for x in st[v] if x and x[-1][0] == "lit" and x[-1][1].endswith(suf))
            no = st[v] - yes
            a, b = dict(st), dict(st)
            a[v], b[v] = yes, no
            ra, rb = (a if yes else None), (b if no else None)
            return (rb, ra) if neg else (ra, rb)
        return dict(st), dict(st)

    def members_of(self, it: ast.AST, st):
        """The prefix members a tuple / list expression (or a local bound to one) holds, else None."""
        if isinstance(it, ast.Name) and isinstance(st.get(it.id), tuple) and st[it.id] and st[it.id][0] == "$members":
            return st[it.id][1]
        if isinstance(it, (ast.Tuple, ast.List)) and it.elts:
            ms = [enum_member(x, "TokenisationPrefixes") if attr_chain(x) and attr_chain(x)[-1] != "value" else None for x in it.elts]
            if all(ms):
                return tuple(ms)
        return None

    def for_bind(self, node, st):
        it = node.iter
        tgt = node.target
        if isinstance(it, ast.Call) and isinstance(it.func, ast.Name) and it.func.id == "enumerate" and it.args and isinstance(tgt, ast.Tuple) and len(tgt.elts) == 2:
            it, tgt = it.args[0], tgt.elts[1]
        ms = self.members_of(it, st)
        if ms is not None and isinstance(tgt, ast.Name):
            st[tgt.id] = ("$members", ms)
        return st


# ---------------------------------------------------------------------------------------------------- emitter domains
def emitter_domains(p: Program, fi: FuncInfo) -> dict[str, tuple[str, str]]:
    """local variable -> (domain tag, how it is established) for the values the emitter formats into tokens."""
    out: dict[str, tuple[str, str]] = {}
    fn = fi.node
    body = list(walk_local(fn))
    for n in list(body):
        if isinstance(n, ast.FunctionDef):
            body.extend(walk_local(n))
    assigns: dict[str, list[ast.AST]] = {}
    for n in body:
        if isinstance(n, ast.Assign) and len(n.targets) == 1 and isinstance(n.targets[0], ast.Name):
            assigns.setdefault(n.targets[0].id, []).append(n.value)

    def raising_guards():
        for n in body:
            if isinstance(n, ast.If) and any(isinstance(x, ast.Raise) for x in n.body):
                yield n

    # range guards:  if not (lo <= X <= hi): raise
    for g in raising_guards():
        t = g.test
        if isinstance(t, ast.UnaryOp) and isinstance(t.op, ast.Not):
            c = t.operand
            if isinstance(c, ast.Compare) and len(c.ops) == 2 and all(isinstance(o, ast.LtE) for o in c.ops) and _plain(c.comparators[0]):
                lo, hi = src(c.left), src(c.comparators[1])
                var = src(c.comparators[0])                  # a local, or the field read in place (`pairing[0].note`)
                for attr, tag in (("pitch_range", "PITCH"), ("time_signature_range", "TSG")):
                    if lo == f"self.{attr}[0]" and hi == f"self.{attr}[1]":
                        out[var] = (tag, f"guard `{short(t)}` raises otherwise")
        if isinstance(t, ast.Compare) and len(t.ops) == 1 and isinstance(t.ops[0], ast.NotIn) and _plain(t.left) \
                and attr_chain(t.comparators[0]) == ["self", "note_values"]:
            out[src(t.left)] = ("VALUE", f"guard `{short(t)}` raises otherwise")
    # provenance: element of self.velocity_bins / self.step_sizes
    for var, vals in assigns.items():
        for attr, tag in (("velocity_bins", "VELOCITY"), ("step_sizes", "REST")):
            ok = bool(vals)
            for v in vals:
                good = False
                if isinstance(v, ast.Subscript) and attr_chain(v.value) == ["self", attr] and not isinstance(v.slice, ast.Slice):
                    good = True
                # a copy of a local that only ever holds an element itself (`largest = self.step_sizes[-1]` ... `rest_value = largest`)
                if isinstance(v, ast.Name) and v.id != var and assigns.get(v.id) and all(
                        isinstance(w, ast.Subscript) and attr_chain(w.value) == ["self", attr] and not isinstance(w.slice, ast.Slice) for w in assigns[v.id]):
                    good = True
                if isinstance(v, ast.Call) and isinstance(v.func, ast.Name) and v.func.id == "next" and v.args and isinstance(v.args[0], ast.GeneratorExp):
                    g = v.args[0]
                    it = g.generators[0].iter
                    base = it.args[0] if isinstance(it, ast.Call) and isinstance(it.func, ast.Name) and it.func.id in ("reversed", "sorted", "iter") and it.args else it
                    if attr_chain(base) == ["self", attr] and isinstance(g.elt, ast.Name) and isinstance(g.generators[0].target, ast.Name) \
                            and g.elt.id == g.generators[0].target.id:
                        good = True
                if isinstance(v, ast.Call) and fi.cls and isinstance(v.func, ast.Attribute) and isinstance(v.func.value, ast.Name) and v.func.value.id in ("self", fi.cls):
                    h = p.lookup_method(fi.cls, v.func.attr)
                    if h is not None and _returns_element_of(h.node, attr):
                        good = True                      # a helper of the class whose every result is an element of that list
                ok = ok and good
            if ok:
                out[var] = (tag, f"element of self.{attr}")
    # track: channel of an event after set_channel(i) over enumerate(inputs) and the length guard
    has_len_guard = any(isinstance(g.test, ast.UnaryOp) and "len(" in src(g.test) and "self.num_tracks" in src(g.test) and "==" in src(g.test)
                        for g in raising_guards()) or any("len(" in src(g.test) and "self.num_tracks" in src(g.test) and "!=" in src(g.test) for g in raising_guards())
    set_ch = None
    for n in body:
        if isinstance(n, ast.For) and isinstance(n.iter, ast.Call) and isinstance(n.iter.func, ast.Name) and n.iter.func.id == "enumerate" \
                and isinstance(n.target, ast.Tuple) and isinstance(n.target.elts[0], ast.Name):
            idx = n.target.elts[0].id
            for c in ast.walk(n):
                if isinstance(c, ast.Call) and call_method(c)[1] == "set_channel" and c.args and isinstance(c.args[0], ast.Name) and c.args[0].id == idx \
                        and not any(isinstance(a, ast.If) for a in ancestors(c) if a is not fn and a in list(ast.walk(n))):
                    set_ch = c
    for var, vals in assigns.items():
        if vals and all((isinstance(v, ast.Attribute) and v.attr == "channel") or
                        (isinstance(v, ast.Subscript) and isinstance(v.slice, ast.Constant) and v.slice.value == 0 and "pairing" in src(v.value))
                        for v in vals):
            if has_len_guard and set_ch is not None:
                out.setdefault(var, ("TRACK", "channels assigned 0..num_tracks-1 by set_channel(i); input count checked against num_tracks"))
    # ... or a name that a raising guard ties to such a channel (`if ch != pairing[0].channel: raise`: the key of the interleaved item)
    if has_len_guard and set_ch is not None:
        for g in raising_guards():
            t = g.test
            if isinstance(t, ast.Compare) and len(t.ops) == 1 and isinstance(t.ops[0], ast.NotEq) and not g.orelse:
                for v_, e_ in ((t.left, t.comparators[0]), (t.comparators[0], t.left)):
                    if isinstance(v_, ast.Name) and isinstance(e_, ast.Attribute) and e_.attr == "channel" and "pairing" in src(e_.value) or \
                            (isinstance(v_, ast.Name) and isinstance(e_, ast.Attribute) and e_.attr == "channel" and isinstance(e_.value, ast.Name)
                             and e_.value.id in assigns and all(isinstance(w, ast.Subscript) and isinstance(w.slice, ast.Constant) and w.slice.value == 0 for w in assigns[e_.value.id])):
                        out.setdefault(v_.id, ("TRACK", "equal to the event's channel (a guard raises otherwise); channels assigned 0..num_tracks-1 by set_channel(i)"))
    # ... or the channel read in place, wherever a token is formatted from `<pairing>[0].channel`
    if has_len_guard and set_ch is not None:
        for n in body:
            if isinstance(n, ast.FormattedValue) and isinstance(n.value, ast.Attribute) and n.value.attr == "channel" and "pairing" in src(n.value.value):
                out.setdefault(src(n.value), ("TRACK", "channels assigned 0..num_tracks-1 by set_channel(i); input count checked against num_tracks"))
    return out


def _plain(e: ast.AST) -> bool:
    """A name, or an attribute / constant-subscript chain on a name: something that can be named again by its source text."""
    while isinstance(e, (ast.Attribute, ast.Subscript)):
        if isinstance(e, ast.Subscript) and not isinstance(e.slice, ast.Constant):
            return False
        e = e.value
    return isinstance(e, ast.Name)


def _returns_element_of(fn: ast.FunctionDef, attr: str) -> bool:
    """Every value `fn` returns is an element of `self.<attr>`: the list indexed, a loop variable over it (in any order), or a local
    assigned one of those."""
    elem_names = set()
    for n in ast.walk(fn):
        if isinstance(n, ast.For) and isinstance(n.target, ast.Name):
            it = n.iter
            base = it.args[0] if isinstance(it, ast.Call) and isinstance(it.func, ast.Name) and it.func.id in ("reversed", "sorted", "iter", "list") and it.args else it
            if attr_chain(base) == ["self", attr]:
                elem_names.add(n.target.id)
        if isinstance(n, ast.Assign) and len(n.targets) == 1 and isinstance(n.targets[0], ast.Name) and isinstance(n.value, ast.Subscript) \
                and attr_chain(n.value.value) == ["self", attr] and not isinstance(n.value.slice, ast.Slice):
            elem_names.add(n.targets[0].id)
    stores = {}
    for n in ast.walk(fn):
        if isinstance(n, ast.Name) and isinstance(n.ctx, ast.Store):
            stores[n.id] = stores.get(n.id, 0) + 1
    rets = [r for r in ast.walk(fn) if isinstance(r, ast.Return)]
    if not rets:
        return False
    for r in rets:
        v = r.value
        if isinstance(v, ast.Name) and v.id in elem_names and stores.get(v.id, 0) == 1:
            continue
        if isinstance(v, ast.Subscript) and attr_chain(v.value) == ["self", attr] and not isinstance(v.slice, ast.Slice):
            continue
        return False
    return True
