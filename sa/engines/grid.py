"""GRID -- provenance of written times in AbsoluteSequence.quantise (C05) and the shifted-pop idiom (IDX1).

Flow-sensitive abstract interpretation with the value kinds
    GRID      provably a multiple of one of the step sizes: `_ * step`, `t - t % step`, GRID +/- step, an element of a
              GRIDLIST, a value read back from a place that only ever received GRID values
    GRIDLIST  list whose elements are all GRID (comprehension with GRID element, concatenation, append of GRID)
    EMPTY     empty list
    ORIG      the message's original (unquantised) time
    OFFGRID   GRID plus/minus a non-zero constant
    OTHER     anything else (not judged)
and a pseudo variable for "the time attribute of the message being processed" (ORIG at the start of each iteration,
then whatever was last stored).
"""
from __future__ import annotations

import ast

from ..absint import AbsInt
from ..astutil import attr_chain, call_method, short, src
from ..model import FuncInfo, walk_local

GRID, GRIDLIST, EMPTY, ORIG, OFFGRID, OTHER, STEP, STEPLIST, DICT = "GRID", "GRIDLIST", "EMPTY", "ORIG", "OFFGRID", "OTHER", "STEP", "STEPLIST", "DICT"
OFFLIST, ORIGLIST = "OFFGRIDLIST", "ORIGLIST"


def jk(a, b):
    if a == b:
        return a
    if a is None:
        return b
    if b is None:
        return a
    if {a, b} == {EMPTY, GRIDLIST}:
        return GRIDLIST
    if {a, b} == {EMPTY, STEPLIST}:
        return STEPLIST
    if OFFLIST in (a, b) and {a, b} <= {OFFLIST, GRIDLIST, EMPTY}:
        return OFFLIST
    if ORIGLIST in (a, b) and {a, b} <= {ORIGLIST, GRIDLIST, EMPTY}:
        return ORIGLIST
    if OFFGRID in (a, b):
        return OFFGRID
    if ORIG in (a, b) and (a in (ORIG, GRID) and b in (ORIG, GRID)):
        return ORIG
    return OTHER


class GridInterp(AbsInt):
    def __init__(self, fi: FuncInfo, step_param: str, default_step_funcs=("get_default_step_sizes",)):
        super().__init__()
        self.fi = fi
        self.step_param = step_param
        self.default_step_funcs = set(default_step_funcs)
        self.sinks: dict[tuple, tuple[ast.AST, ast.AST, str]] = {}
        self.msg_aliases: set[str] = set()

    def join(self, a, b):
        out = {}
        for k in set(a) | set(b):
            out[k] = jk(a.get(k), b.get(k))
        return out

    def copy(self, s):
        return dict(s)

    # ---- kinds
    def kind(self, e: ast.AST, st: dict, comp_env: dict | None = None) -> str:
        env = comp_env or {}
        if isinstance(e, ast.Name):
            if e.id in env:
                return env[e.id]
            return st.get(e.id, OTHER)
        if isinstance(e, ast.Constant):
            return OTHER
        if isinstance(e, ast.Attribute):
            if e.attr == "time" and isinstance(e.value, ast.Name) and e.value.id in self.msg_aliases:
                return st.get("$msgtime", ORIG)
            return OTHER
        if isinstance(e, ast.Subscript):
            b = self.kind(e.value, st, env)
            if isinstance(e.slice, ast.Slice):
                return b
            if b == GRIDLIST:
                return GRID
            if b == OFFLIST:
                return OFFGRID
            if b == ORIGLIST:
                return ORIG
            if b == STEPLIST:
                return STEP
            if b == DICT and isinstance(e.value, ast.Name):
                return st.get("$d:" + e.value.id)
            if b == DICT:
                return OTHER
            return OTHER
        if isinstance(e, ast.BinOp):
            l, r = self.kind(e.left, st, env), self.kind(e.right, st, env)
            if isinstance(e.op, ast.Mult):
                if STEP in (l, r):
                    return GRID
                return OTHER
            if isinstance(e.op, ast.Sub) and isinstance(e.right, ast.BinOp) and isinstance(e.right.op, ast.Mod) \
                    and self.kind(e.right.right, st, env) == STEP and src(e.left) == src(e.right.left):
                return GRID                               # t - t % step
            if isinstance(e.op, (ast.Add, ast.Sub)):
                if l in (GRIDLIST, EMPTY) and r in (GRIDLIST, EMPTY) and isinstance(e.op, ast.Add):
                    return GRIDLIST if GRIDLIST in (l, r) else EMPTY
                if isinstance(e.op, ast.Add) and {l, r} <= {GRIDLIST, EMPTY, OFFLIST, ORIGLIST} :
                    return OFFLIST if OFFLIST in (l, r) else ORIGLIST
                if l == OFFGRID and r == STEP:
                    return OFFGRID
                if l == GRID and r == STEP:
                    return GRID
                if l == STEP and r == GRID and isinstance(e.op, ast.Add):
                    return GRID
                for a, bnode in ((l, e.right), (r, e.left)):
                    if a == GRID and isinstance(bnode, ast.Constant) and isinstance(bnode.value, (int, float)) and bnode.value != 0:
                        return OFFGRID
                if l == OFFGRID or r == OFFGRID:
                    return OFFGRID
                return OTHER
            return OTHER
        if isinstance(e, (ast.ListComp, ast.GeneratorExp)):
            cenv = dict(env)
            for g in e.generators:
                ik = self.kind(g.iter, st, cenv)
                tk = {STEPLIST: STEP, GRIDLIST: GRID, OFFLIST: OFFGRID, ORIGLIST: ORIG}.get(ik, OTHER)
                if isinstance(g.iter, ast.Call) and isinstance(g.iter.func, ast.Name) and g.iter.func.id in ("range", "enumerate"):
                    tk = OTHER
                if isinstance(g.iter, ast.Call) and isinstance(g.iter.func, ast.Name) and g.iter.func.id == "zip" and not g.iter.keywords \
                        and isinstance(g.target, ast.Tuple) and len(g.target.elts) == len(g.iter.args) \
                        and all(isinstance(x, ast.Name) for x in g.target.elts):
                    # zip(A, B): the k-th target takes the element kind of the k-th list
                    for x, a in zip(g.target.elts, g.iter.args):
                        ak = self.kind(a, st, cenv)
                        cenv[x.id] = {STEPLIST: STEP, GRIDLIST: GRID, OFFLIST: OFFGRID, ORIGLIST: ORIG}.get(ak, OTHER)
                    continue
                for n in ast.walk(g.target):
                    if isinstance(n, ast.Name):
                        cenv[n.id] = tk
            ek = self.kind(e.elt, st, cenv)
            return {GRID: GRIDLIST, STEP: STEPLIST, OFFGRID: OFFLIST, ORIG: ORIGLIST}.get(ek, OTHER)
        if isinstance(e, ast.List):
            if not e.elts:
                return EMPTY
            ks = {self.kind(x, st, env) for x in e.elts}
            if ks == {GRID}:
                return GRIDLIST
            if ks <= {GRID, OFFGRID} and OFFGRID in ks:
                return OFFLIST
            if ks <= {GRID, ORIG} and ORIG in ks:
                return ORIGLIST
            return OTHER
        if isinstance(e, ast.Call):
            recv, name = call_method(e)
            if recv is None and name in ("dict",) and not e.args:
                return DICT
            if recv is None and name in ("list", "sorted", "reversed", "tuple") and e.args:
                return self.kind(e.args[0], st, env)
            if recv is None and name in self.default_step_funcs:
                return STEPLIST
            if recv is not None and name in ("pop", "get") and isinstance(recv, ast.Name) and st.get(recv.id) == DICT:
                k = st.get("$d:" + recv.id)      # None = nothing stored yet on any path seen so far (bottom)
                if name == "get" and len(e.args) > 1:
                    return OTHER
                return k
            ch = attr_chain(e.func)
            if ch and ch[0] == "copy" and e.args:
                return self.kind(e.args[0], st, env)
            return OTHER
        if isinstance(e, ast.Dict) and not e.keys:
            return DICT
        if isinstance(e, ast.IfExp):
            return jk(self.kind(e.body, st, env), self.kind(e.orelse, st, env))
        return OTHER

    # ---- transfer
    def record_sink(self, node, expr, k, what):
        if k is None:
            return
        key = (getattr(node, "lineno", 0), getattr(node, "col_offset", 0), what)
        old = self.sinks.get(key)
        self.sinks[key] = (node, expr, jk(old[2], k) if old else k, what)

    def scan_ctor_sinks(self, e: ast.AST, st: dict):
        for n in ast.walk(e):
            if isinstance(n, ast.Call) and isinstance(n.func, ast.Name) and n.func.id == "Message":
                for kw in n.keywords:
                    if kw.arg == "time":
                        self.record_sink(n, kw.value, self.kind(kw.value, st), "Message(time=...)")

    def stmt(self, s, st):
        if isinstance(s, ast.Assign):
            self.scan_ctor_sinks(s.value, st)
            k = self.kind(s.value, st)
            for t in s.targets:
                if isinstance(t, ast.Name):
                    if isinstance(s.value, ast.Name) and s.value.id in self.msg_aliases:
                        self.msg_aliases.add(t.id)
                    st[t.id] = k
                elif isinstance(t, ast.Attribute) and t.attr == "time":
                    if isinstance(t.value, ast.Name) and t.value.id in self.msg_aliases:
                        st["$msgtime"] = k
                    self.record_sink(s, s.value, k, f"{short(t)} = ...")
                elif isinstance(t, ast.Subscript) and isinstance(t.value, ast.Name) and st.get(t.value.id) == DICT:
                    key = "$d:" + t.value.id
                    st[key] = jk(st.get(key), k)
                elif isinstance(t, ast.Tuple):
                    for n in ast.walk(t):
                        if isinstance(n, ast.Name):
                            st[n.id] = OTHER
            return st
        if isinstance(s, ast.AugAssign):
            self.scan_ctor_sinks(s.value, st)
            if isinstance(s.target, ast.Name):
                fake = ast.BinOp(left=ast.Name(id=s.target.id, ctx=ast.Load()), op=s.op, right=s.value)
                st[s.target.id] = self.kind(fake, st)
            elif isinstance(s.target, ast.Attribute) and s.target.attr == "time":
                fake = ast.BinOp(left=s.target, op=s.op, right=s.value)
                k = self.kind(fake, st)
                self.record_sink(s, fake, k, f"{short(s.target)} += ...")
            return st
        if isinstance(s, ast.Expr):
            self.scan_ctor_sinks(s.value, st)
            if isinstance(s.value, ast.Call):
                recv, name = call_method(s.value)
                if isinstance(recv, ast.Name) and name == "append" and s.value.args:
                    ek = self.kind(s.value.args[0], st)
                    cur = st.get(recv.id, OTHER)
                    if ek is None:
                        pass
                    elif cur in (EMPTY, GRIDLIST, OFFLIST, ORIGLIST):
                        st[recv.id] = jk(cur, {GRID: GRIDLIST, OFFGRID: OFFLIST, ORIG: ORIGLIST}.get(ek, OTHER))
                    elif cur == STEPLIST and ek != STEP:
                        st[recv.id] = OTHER
                elif isinstance(recv, ast.Name) and name == "extend" and s.value.args:
                    ek = self.kind(s.value.args[0], st)
                    cur = st.get(recv.id, OTHER)
                    if cur in (EMPTY, GRIDLIST, OFFLIST, ORIGLIST):
                        st[recv.id] = jk(cur, ek) if ek in (GRIDLIST, EMPTY, OFFLIST, ORIGLIST) else OTHER
                elif isinstance(recv, ast.Subscript) and name == "append" and isinstance(recv.value, ast.Name) \
                        and st.get(recv.value.id) == DICT:
                    pass
            return st
        return st

    def for_iter(self, node, st):
        st["$it%d" % node.lineno] = self.kind(node.iter, st)
        return st

    def for_bind(self, node, st):
        ik = st.get("$it%d" % node.lineno, OTHER)
        tk = {STEPLIST: STEP, GRIDLIST: GRID, OFFLIST: OFFGRID, ORIGLIST: ORIG}.get(ik, OTHER)
        it = node.iter
        over_messages = attr_chain(it) == ["self", "_messages"]
        if isinstance(node.target, ast.Name):
            st[node.target.id] = tk
            if over_messages:
                self.msg_aliases.add(node.target.id)
                st["$msgtime"] = ORIG
        else:
            for n in ast.walk(node.target):
                if isinstance(n, ast.Name):
                    st[n.id] = OTHER
        return st

    def cond(self, test, st):
        return dict(st), dict(st)


def analyse_quantise(fi: FuncInfo):
    params = fi.params
    step_param = params[1] if len(params) > 1 else "step_sizes"
    it = GridInterp(fi, step_param)
    it.run_function(fi.node, {step_param: STEPLIST})
    return it


# ---------------------------------------------------------------------------------------------------------------
def shifted_pop_sites(fn: ast.FunctionDef):
    """`for k, i in enumerate(L): target.pop(i - k)` -> [(for node, L expr, pop call)]"""
    out = []
    for n in walk_local(fn):
        if isinstance(n, ast.For) and isinstance(n.iter, ast.Call) and isinstance(n.iter.func, ast.Name) \
                and n.iter.func.id == "enumerate" and n.iter.args and isinstance(n.target, ast.Tuple) and len(n.target.elts) == 2 \
                and all(isinstance(x, ast.Name) for x in n.target.elts):
            k, i = n.target.elts[0].id, n.target.elts[1].id
            for c in ast.walk(n):
                if isinstance(c, ast.Call) and isinstance(c.func, ast.Attribute) and c.func.attr in ("pop", "__delitem__") and c.args:
                    a = c.args[0]
                    if isinstance(a, ast.BinOp) and isinstance(a.op, ast.Sub) and isinstance(a.left, ast.Name) \
                            and isinstance(a.right, ast.Name) and a.left.id == i and a.right.id == k:
                        out.append((n, n.iter.args[0], c))
    return out


def provably_ascending(fn: ast.FunctionDef, loop: ast.For, L: ast.AST) -> tuple[bool, str]:
    if isinstance(L, ast.Call) and isinstance(L.func, ast.Name) and L.func.id == "sorted":
        if any(k.arg == "reverse" for k in L.keywords):
            return False, "sorted(..., reverse=...)"
        return True, "wrapped in sorted()"
    if not isinstance(L, ast.Name):
        return False, f"index list is `{short(L)}` (not recognised as ascending)"
    name = L.id
    muts = []
    for n in walk_local(fn):
        if getattr(n, "lineno", 0) >= loop.lineno:
            continue
        if isinstance(n, ast.Call) and isinstance(n.func, ast.Attribute) and isinstance(n.func.value, ast.Name) and n.func.value.id == name:
            muts.append((n.lineno, n.func.attr, n))
        elif isinstance(n, (ast.Assign, ast.AugAssign)):
            tg = n.targets if isinstance(n, ast.Assign) else [n.target]
            if any(isinstance(t, ast.Name) and t.id == name for t in tg):
                muts.append((n.lineno, "assign" if isinstance(n, ast.Assign) else "aug", n))
    muts.sort(key=lambda x: x[0])
    if not muts:
        return False, "no definition of the index list found"
    # sorted after the last other mutation?
    last_other = max((ln for ln, kind, _ in muts if kind != "sort"), default=0)
    for ln, kind, node in muts:
        if kind == "sort" and ln > last_other and not any(k.arg == "reverse" for k in node.keywords):
            return True, ".sort() after the last mutation"
    # assigned from sorted(...)
    assigns = [n for _, kind, n in muts if kind == "assign"]
    if assigns and isinstance(assigns[-1].value, ast.Call) and isinstance(assigns[-1].value.func, ast.Name) \
            and assigns[-1].value.func.id == "sorted" and assigns[-1].lineno > max((ln for ln, k, _ in muts if k not in ("assign",)), default=0):
        return True, "assigned from sorted()"
    # built solely by appending the running index of one forward loop
    others = [(ln, kind, n) for ln, kind, n in muts if not (kind == "assign" and isinstance(n.value, ast.List) and not n.value.elts)]
    if others and all(kind == "append" for _, kind, _ in others):
        loops = set()
        ok = True
        for _, _, call in others:
            arg = call.args[0] if call.args else None
            par = getattr(call, "_parent", None)
            enc = None
            x = call
            while hasattr(x, "_parent"):
                x = x._parent
                if isinstance(x, (ast.For, ast.While)):
                    enc = x
                    break
            if not (isinstance(enc, ast.For) and isinstance(enc.iter, ast.Call) and isinstance(enc.iter.func, ast.Name)
                    and enc.iter.func.id in ("enumerate", "range") and isinstance(arg, ast.Name)):
                ok = False
                break
            idx = enc.target.elts[0] if isinstance(enc.target, ast.Tuple) else enc.target
            if not (isinstance(idx, ast.Name) and idx.id == arg.id):
                ok = False
                break
            loops.add(id(enc))
        if ok and len(loops) == 1 and len(others) == 1:
            return True, "built by appending the index of one forward loop"
    kinds = sorted({kind for _, kind, _ in muts})
    return False, f"index list `{name}` is filled by {kinds} without being sorted before the shifted removal"
