"""Shared extraction for C12/C13: writer table of MidiTrack.to_mido_track, reader table of MidiMessage.parse_mido_message."""
from __future__ import annotations

import ast

from ..astutil import attr_chain, call_method, short, src, enum_member, kwarg, flatten_boolop
from ..model import Program, walk_local, AnalysisError
from ..engines.typecase import TypeCase, events_matching


def writer_table(p: Program):
    """MessageType member -> (mido type string, {mido kw: source expr}, call node) for every branch that appends."""
    fi = p.func("MidiTrack.to_mido_track")
    loop = next((n for n in fi.node.body if isinstance(n, ast.For) and attr_chain(n.iter) == ["self", "messages"]), None)
    if loop is None or not isinstance(loop.target, ast.Name):
        raise AnalysisError("MidiTrack.to_mido_track: message loop not found")
    m = loop.target.id
    table = {}
    for n in ast.walk(loop):
        if isinstance(n, ast.If):
            t = n.test
            if isinstance(t, ast.Compare) and isinstance(t.ops[0], (ast.Eq, ast.Is)) and isinstance(t.left, ast.Attribute) and t.left.attr == "message_type":
                T = enum_member(t.comparators[0], "MessageType")
                for c in ast.walk(ast.Module(body=n.body, type_ignores=[])):
                    if isinstance(c, ast.Call) and attr_chain(c.func) in (["mido", "Message"], ["mido", "MetaMessage"]) and c.args \
                            and isinstance(c.args[0], ast.Constant):
                        table[T] = (c.args[0].value, {k.arg: k.value for k in c.keywords}, c)
    return fi, loop, m, table


def reader_table(p: Program):
    """mido type string -> list of (MessageType member, {attr: source expr}, extra conditions text)."""
    fi = p.func("MidiMessage.parse_mido_message")
    src_param = fi.params[0]
    out: dict[str, list] = {}
    chain = [n for n in fi.node.body if isinstance(n, ast.If) and ".type" in src(n.test)]
    if not chain:
        raise AnalysisError("MidiMessage.parse_mido_message: type dispatch not found")
    node = chain[0]
    branches = []
    while True:
        branches.append((node.test, node.body))
        if len(node.orelse) == 1 and isinstance(node.orelse[0], ast.If):
            node = node.orelse[0]
        else:
            break
    for test, body in branches:
        T = None
        attrs = {}
        for s in body:
            if isinstance(s, ast.Assign) and isinstance(s.targets[0], ast.Attribute):
                if s.targets[0].attr == "message_type":
                    T = enum_member(s.value, "MessageType")
                else:
                    attrs[s.targets[0].attr] = s.value
        for disj in flatten_boolop(test, ast.Or):
            conj = flatten_boolop(disj, ast.And)
            tname = None
            conds = []
            for c in conj:
                if isinstance(c, ast.Compare) and isinstance(c.left, ast.Attribute) and c.left.attr == "type" and isinstance(c.comparators[0], ast.Constant):
                    tname = c.comparators[0].value
                else:
                    conds.append(c)
            if tname is not None:
                out.setdefault(tname, []).append((T, attrs, conds, test))
    return fi, src_param, out
