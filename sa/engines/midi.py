"""Shared extraction for C12/C13: writer table of MidiTrack.to_mido_track, reader table of MidiMessage.parse_mido_message."""
from __future__ import annotations

import ast
import copy

from ..astutil import clone, attr_chain, call_method, short, src, enum_member, kwarg, flatten_boolop
from ..model import Program, walk_local, AnalysisError
from ..engines.typecase import TypeCase, events_matching


def writer_table(p: Program):
    """MessageType member -> (mido type string, {mido kw: source expr}, call node) for every branch that appends."""
    fi = p.func("MidiTrack.to_mido_track")
    loop = next((n for n in fi.node.body if isinstance(n, ast.For) and attr_chain(n.iter) == ["self", "messages"]), None)
    if loop is None or not isinstance(loop.target, ast.Name):
        raise AnalysisError("MidiTrack.to_mido_track: message loop not found")
    m = loop.target.id
    table = {}
    for n in ast.walk(loop):
        if isinstance(n, ast.If):
            t = n.test
            if isinstance(t, ast.Compare) and isinstance(t.ops[0], (ast.Eq, ast.Is)) and isinstance(t.left, ast.Attribute) and t.left.attr == "message_type":
                T = enum_member(t.comparators[0], "MessageType")
                for c in ast.walk(ast.Module(body=n.body, type_ignores=[])):
                    if isinstance(c, ast.Call) and attr_chain(c.func) in (["mido", "Message"], ["mido", "MetaMessage"]) and c.args \
                            and isinstance(c.args[0], ast.Constant):
                        table[T] = (c.args[0].value, {k.arg: _resolve_local(c, k.value) for k in c.keywords}, c)
    return fi, loop, m, table


def _resolve_local(call: ast.Call, v: ast.AST) -> ast.AST:
    """A keyword value that is a local defined by the statement just before the one that contains `call` -- `x = e`, or
    `if c: x = a` / `else: x = b` (the statement form of `a if c else b`) -- is that expression."""
    if not isinstance(v, ast.Name):
        return v
    st = call
    while not isinstance(st, ast.stmt):
        st = st._parent
    par = getattr(st, "_parent", None)
    for f in ("body", "orelse"):
        blk = getattr(par, f, None)
        if isinstance(blk, list) and st in blk and blk.index(st) > 0:
            prev = blk[blk.index(st) - 1]

            def val(s_):
                if isinstance(s_, ast.Assign) and len(s_.targets) == 1 and isinstance(s_.targets[0], ast.Name) and s_.targets[0].id == v.id:
                    return s_.value
                return None
            if val(prev) is not None:
                return val(prev)
            if isinstance(prev, ast.If) and len(prev.body) == 1 and len(prev.orelse) == 1 and val(prev.body[0]) is not None and val(prev.orelse[0]) is not None:
                return ast.copy_location(ast.IfExp(test=prev.test, body=val(prev.body[0]), orelse=val(prev.orelse[0])), v)
    return v


def reader_table(p: Program):
    """mido type string -> list of (MessageType member, {attr: source expr}, extra conditions, test).  Read off the case-by-case
    evaluation of the function (`_ParseEval`: what is stored for a note_on with velocity > 0, == 0, a note_off, ...), so the shape of
    the dispatch does not matter; a kind whose cases the evaluation cannot decide falls back to the branch conditions as written."""
    fi = p.func("MidiMessage.parse_mido_message")
    sp = fi.params[0]
    try:
        _, _, shape = _reader_table_by_shape(p)
    except AnalysisError:
        shape = {}
    ret = next((r for r in walk_local(fi.node) if isinstance(r, ast.Return) and isinstance(r.value, ast.Name)), None)
    built = [r for r in walk_local(fi.node) if isinstance(r, ast.Return) and isinstance(r.value, ast.Call) and r.value.keywords]
    if ret is None and not built:
        return fi, sp, shape
    mv_name = ret.value.id if ret is not None else "<result>"
    out: dict[str, list] = {}
    vel = ast.Attribute(value=ast.Name(id=sp, ctx=ast.Load()), attr="velocity", ctx=ast.Load())
    for mtype in ("note_on", "note_off", "time_signature", "key_signature", "control_change", "program_change"):
        cases = {}
        for vc in ("pos", "zero"):
            ev = _ParseEval(sp, mv_name, mtype, vc, True)
            ev.run(fi.node.body)
            if ev.unknown:
                cases = None
                break
            T = enum_member(ev.stores["message_type"], "MessageType") if "message_type" in ev.stores else None
            cases[vc] = (T, {k: v for k, v in ev.stores.items() if k not in ("message_type", "time", "channel")})
        if cases is None:
            if mtype in shape:
                out[mtype] = shape[mtype]
            continue
        (tp, ap), (tz, az) = cases["pos"], cases["zero"]
        if tp == tz and {k: src(v) for k, v in ap.items()} == {k: src(v) for k, v in az.items()}:
            if tp is not None:
                out[mtype] = [(tp, ap, [], None)]
            continue
        out[mtype] = [(t_, a_, [ast.Compare(left=vel, ops=[op], comparators=[ast.Constant(value=0)])], None)
                      for t_, a_, op in ((tp, ap, ast.Gt()), (tz, az, ast.Eq())) if t_ is not None]
    return fi, sp, out


def _reader_table_by_shape(p: Program):
    fi = p.func("MidiMessage.parse_mido_message")
    src_param = fi.params[0]
    out: dict[str, list] = {}
    chain = [n for n in fi.node.body if isinstance(n, ast.If) and ".type" in src(n.test)]
    if not chain:
        raise AnalysisError("MidiMessage.parse_mido_message: type dispatch not found")
    node = chain[0]
    branches = []
    while True:
        branches.append((node.test, node.body))
        if len(node.orelse) == 1 and isinstance(node.orelse[0], ast.If):
            node = node.orelse[0]
        else:
            break
    for test, body in branches:
        T = None
        attrs = {}
        for s in body:
            if isinstance(s, ast.Assign) and isinstance(s.targets[0], ast.Attribute):
                if s.targets[0].attr == "message_type":
                    T = enum_member(s.value, "MessageType")
                else:
                    attrs[s.targets[0].attr] = s.value
        for disj in flatten_boolop(test, ast.Or):
            conj = flatten_boolop(disj, ast.And)
            tname = None
            conds = []
            for c in conj:
                if isinstance(c, ast.Compare) and isinstance(c.left, ast.Attribute) and c.left.attr == "type" and isinstance(c.comparators[0], ast.Constant):
                    tname = c.comparators[0].value
                else:
                    conds.append(c)
            if tname is not None:
                out.setdefault(tname, []).append((T, attrs, conds, test))
    return fi, src_param, out


# ---------------------------------------------------------------------------------------------------- PARSE
class _ParseEval:
    """Executes MidiMessage.parse_mido_message for one (mido type string, velocity class, has channel?) case.  Every test
    of the function is decidable from the case; the result is the set of attribute stores that happen."""

    def __init__(self, src_param: str, msg_var: str, mtype: str, vel: str, has_channel: bool):
        self.sp, self.mv, self.mtype, self.vel, self.has_channel = src_param, msg_var, mtype, vel, has_channel
        self.stores: dict[str, ast.AST] = {}
        self.unknown: list[ast.AST] = []
        self.env: dict[str, ast.AST] = {}          # locals of the function, as expressions over the mido message
        self.done = False

    def ev(self, e: ast.AST) -> ast.AST:
        """`e` with the locals replaced by what they hold in this case, `getattr(mido, "channel", None)` resolved by the case and
        conditional expressions decided."""
        me = self

        class _S(ast.NodeTransformer):
            def visit_Name(self2, n):
                if isinstance(n.ctx, ast.Load) and n.id in me.env:
                    return clone(me.env[n.id])
                return n

            def visit_Call(self2, c):
                self2.generic_visit(c)
                if isinstance(c.func, ast.Name) and c.func.id == "getattr" and len(c.args) in (2, 3) and src(c.args[0]) == me.sp and isinstance(c.args[1], ast.Constant):
                    attr = ast.copy_location(ast.Attribute(value=c.args[0], attr=c.args[1].value, ctx=ast.Load()), c)
                    if c.args[1].value == "channel" and len(c.args) == 3:
                        return attr if me.has_channel else c.args[2]
                    return attr
                return c

            def visit_IfExp(self2, n):
                self2.generic_visit(n)
                v = me.truth(n.test)
                return n if v is None else (n.body if v else n.orelse)
        return _S().visit(clone(e))

    def truth(self, t):
        if isinstance(t, ast.Compare) and len(t.ops) == 1 and isinstance(t.ops[0], (ast.Is, ast.IsNot, ast.Eq, ast.NotEq)) \
                and isinstance(t.comparators[0], ast.Constant) and t.comparators[0].value is None:
            l = t.left
            positive = isinstance(t.ops[0], (ast.Is, ast.Eq))
            if isinstance(l, ast.Constant):
                return (l.value is None) == positive
            if enum_member(l, "MessageType") is not None or (isinstance(l, ast.Attribute) and src(l.value) == self.sp and l.attr in ("type", "time", "note", "velocity")):
                return not positive
            return None
        if isinstance(t, ast.BoolOp):
            vals = [self.truth(v) for v in t.values]
            if isinstance(t.op, ast.And):
                return False if any(v is False for v in vals) else (True if all(v is True for v in vals) else None)
            return True if any(v is True for v in vals) else (False if all(v is False for v in vals) else None)
        if isinstance(t, ast.UnaryOp) and isinstance(t.op, ast.Not):
            v = self.truth(t.operand)
            return None if v is None else not v
        if isinstance(t, ast.Call) and isinstance(t.func, ast.Name) and t.func.id == "hasattr" and len(t.args) == 2 and src(t.args[0]) == self.sp \
                and isinstance(t.args[1], ast.Constant):
            if t.args[1].value == "channel":
                return self.has_channel
            return None
        if isinstance(t, ast.Compare) and len(t.ops) == 1:
            l, r, op = t.left, t.comparators[0], t.ops[0]
            if isinstance(l, ast.Constant) and not isinstance(r, ast.Constant):
                l, r = r, l
                op = {ast.Lt: ast.Gt, ast.Gt: ast.Lt, ast.LtE: ast.GtE, ast.GtE: ast.LtE}.get(type(op), type(op))()
            if src(l) == f"{self.sp}.type" and isinstance(r, ast.Constant) and isinstance(r.value, str):
                if isinstance(op, ast.Eq):
                    return self.mtype == r.value
                if isinstance(op, ast.NotEq):
                    return self.mtype != r.value
            if src(l) == f"{self.sp}.type" and isinstance(op, (ast.In, ast.NotIn)) and isinstance(r, (ast.Tuple, ast.List, ast.Set)):
                vals = [e.value for e in r.elts if isinstance(e, ast.Constant)]
                return (self.mtype in vals) == isinstance(op, ast.In)
            if src(l) == f"{self.sp}.velocity" and isinstance(r, ast.Constant):
                # only tests that split the velocities at 0 are decidable from the case (1..127 vs 0)
                splits = (type(op), r.value) in ((ast.Gt, 0), (ast.GtE, 1), (ast.Eq, 0), (ast.NotEq, 0), (ast.Lt, 1), (ast.LtE, 0))
                v = {"pos": 64, "zero": 0}.get(self.vel)
                if v is None or not splits:
                    return None
                return {ast.Gt: v > r.value, ast.GtE: v >= r.value, ast.Lt: v < r.value, ast.LtE: v <= r.value, ast.Eq: v == r.value,
                        ast.NotEq: v != r.value}.get(type(op))
        return None

    def run(self, body):
        for s in body:
            if self.done:
                return
            if isinstance(s, ast.If):
                v = self.truth(self.ev(s.test))
                if v is None:
                    self.unknown.append(s.test)
                    self.run(s.body)
                    self.run(s.orelse)
                else:
                    self.run(s.body if v else s.orelse)
            elif isinstance(s, ast.Assign) and len(s.targets) == 1 and isinstance(s.targets[0], ast.Attribute) and src(s.targets[0].value) == self.mv:
                self.stores[s.targets[0].attr] = self.ev(s.value)
            elif isinstance(s, ast.Assign) and len(s.targets) == 1 and isinstance(s.targets[0], ast.Name):
                if s.targets[0].id == self.mv and isinstance(s.value, ast.Call):
                    for k in s.value.keywords:                 # the object built with some of its fields given to the constructor
                        if k.arg is not None:
                            self.stores[k.arg] = self.ev(k.value)
                elif s.targets[0].id != self.mv:
                    self.env[s.targets[0].id] = self.ev(s.value)
            elif isinstance(s, ast.Return):
                if isinstance(s.value, ast.Call) and s.value.keywords and not (isinstance(s.value.func, ast.Attribute) and isinstance(s.value.func.value, ast.Name)
                                                                               and s.value.func.value.id == self.mv):
                    for k in s.value.keywords:             # the result built by the return itself: `return MidiMessage(message_type=.., time=..)`
                        if k.arg is not None:
                            self.stores[k.arg] = self.ev(k.value)
                self.done = True
                return


PARSE_EXPECT = {
    # (mido type, velocity class) -> (MessageType, {attribute: mido attribute})
    ("note_on", "pos"): ("NOTE_ON", {"note": "note", "velocity": "velocity"}),
    ("note_on", "zero"): ("NOTE_OFF", {"note": "note"}),
    ("note_off", "pos"): ("NOTE_OFF", {"note": "note"}),
    ("note_off", "zero"): ("NOTE_OFF", {"note": "note"}),
    ("time_signature", None): ("TIME_SIGNATURE", {"numerator": "numerator", "denominator": "denominator"}),
    ("key_signature", None): ("KEY_SIGNATURE", {"key": "key"}),
    ("control_change", None): ("CONTROL_CHANGE", {"control": "control", "velocity": "value"}),
    ("program_change", None): ("PROGRAM_CHANGE", {"program": "program"}),
    ("sysex", None): (None, {}),
}


def parse_rule(ctx, rule: str = "PARSE") -> int:
    """The reader's dispatch decided case by case: for each mido message type (note_on split by velocity > 0 / == 0) the
    resulting MessageType and the fields copied from the mido message; time always, channel iff the mido message has one."""
    p = ctx.p
    fi = p.func("MidiMessage.parse_mido_message")
    ctx.analysed(fi)
    q = fi.qualname
    sp = fi.params[0]
    ret = next((r for r in walk_local(fi.node) if isinstance(r, ast.Return) and isinstance(r.value, ast.Name)), None)
    built = [r for r in walk_local(fi.node) if isinstance(r, ast.Return) and isinstance(r.value, ast.Call) and r.value.keywords]
    if ret is None and not built:
        ctx.undetermined(rule, f"{q}: reader dispatch", "does not return a local message object: not judged")
        return 0
    mv = ret.value.id if ret is not None else "<result>"
    n = 0
    for (mtype, vel), (T, fields) in PARSE_EXPECT.items():
        for has_ch in (True, False):
            ev = _ParseEval(sp, mv, mtype, vel or "pos", has_ch)
            ev.run(fi.node.body)
            what = f"mido `{mtype}`" + (f" with velocity {'> 0' if vel == 'pos' else '== 0'}" if vel and mtype.startswith("note") else "") + \
                   (" (with channel)" if has_ch else " (without channel)")
            if ev.unknown and ".velocity" in src(ev.unknown[0]):
                n += 1
                ctx.check(False, rule, f"{q}: {what}", function=q, construct="reader's velocity test does not split note_on at velocity 0",
                          message=f"`{short(ev.unknown[0])}`: note_on messages must be NOTE_ON for every velocity 1..127 and NOTE_OFF for 0", file=fi.file,
                          node=ev.unknown[0])
                continue
            if ev.unknown:
                ctx.undetermined(rule, f"{q}: {what}", f"test `{short(ev.unknown[0])}` not decidable from the case")
                continue
            gotT = enum_member(ev.stores["message_type"], "MessageType") if "message_type" in ev.stores else None
            bad = []
            if gotT != T:
                bad.append(f"becomes {gotT}, required {T}")
            for a, srcattr in fields.items():
                v = ev.stores.get(a)
                okv = v is not None and any(isinstance(x, ast.Attribute) and x.attr == srcattr and src(x.value) == sp for x in ast.walk(v))
                if not okv:
                    bad.append(f"`{a}` is not taken from the mido message's `{srcattr}` ({short(v) if v is not None else 'not set'})")
            tv = ev.stores.get("time")
            if not (isinstance(tv, ast.Attribute) and tv.attr == "time" and src(tv.value) == sp):
                bad.append("`time` (the delta) is not copied")
            ch = ev.stores.get("channel")
            if has_ch and not (isinstance(ch, ast.Attribute) and ch.attr == "channel" and src(ch.value) == sp):
                bad.append("`channel` is not copied although the mido message has one")
            if not has_ch and ch is not None and any(isinstance(x, ast.Attribute) and x.attr == "channel" and src(x.value) == sp for x in ast.walk(ch)):
                bad.append("`channel` is read although the mido message has none (AttributeError)")
            extra = sorted(set(ev.stores) - set(fields) - {"message_type", "time", "channel", "velocity"})
            if T is None and (set(ev.stores) - {"time", "channel"}):
                bad.append(f"an unhandled mido type sets {sorted(set(ev.stores) - {'time', 'channel'})}")
            n += 1
            ctx.check(not bad, rule, f"{q}: {what} -> {gotT} with {sorted(set(ev.stores) - {'message_type'})}", function=q,
                      construct=f"reader handles {what.split(' (')[0]} wrongly" if bad else "ok", message="; ".join(bad), file=fi.file, node=fi.node)
    return n
