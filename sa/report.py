"""Findings, obligations, known-findings matching, evidence files, VIOLATION / KNOWN-FINDING lines."""
from __future__ import annotations

import ast
import hashlib
import json
import os
import time
from dataclasses import dataclass, field, asdict

from .model import Program, AnalysisError, FuncInfo

VERIF = os.path.dirname(os.path.dirname(os.path.abspath(__file__)))


@dataclass
class Finding:
    property: str
    rule: str
    function: str
    construct: str          # normalised, line-number free description of the offending construct
    message: str
    file: str = ""
    line: int = 0
    path: list[str] = field(default_factory=list)

    @property
    def key(self) -> str:
        h = hashlib.sha1(f"{self.property}|{self.rule}|{self.function}|{self.construct}".encode()).hexdigest()
        return h[:12]

    def diagnostic(self) -> str:
        s = f"  {self.file}:{self.line} {self.function} [{self.rule}] {self.construct} -- {self.message}"
        if self.path:
            s += "\n    path: " + " -> ".join(self.path)
        return s


@dataclass
class Obligation:
    rule: str
    instance: str
    status: str            # discharged | violated | undetermined
    detail: str = ""


class Ctx:
    """Collects what one property check analysed and concluded."""

    def __init__(self, program: Program, prop: str, tier: str = "quick"):
        self.p = program
        self.prop = prop
        self.tier = tier
        self.findings: list[Finding] = []
        self.obligations: list[Obligation] = []
        self.assumptions: list[str] = []
        self.samples: list[object] = []
        self.analysed_functions: set[str] = set()
        self.counters: dict[str, int] = {}
        self.explanation = ""
        self.extra: dict[str, object] = {}
        self.floor_failures: list[str] = []

    # --- recording -----------------------------------------------------------------------------
    def analysed(self, fi: FuncInfo | str) -> None:
        self.analysed_functions.add(fi if isinstance(fi, str) else fi.qualname)

    def count(self, name: str, n: int = 1) -> None:
        self.counters[name] = self.counters.get(name, 0) + n

    def ok(self, rule: str, instance: str, detail: str = "") -> None:
        self.obligations.append(Obligation(rule, instance, "discharged", detail))

    def undetermined(self, rule: str, instance: str, detail: str = "") -> None:
        self.obligations.append(Obligation(rule, instance, "undetermined", detail))

    def violation(self, rule: str, instance: str, *, function: str, construct: str, message: str,
                  file: str = "", node: ast.AST | None = None, path: list[str] | None = None) -> None:
        self.obligations.append(Obligation(rule, instance, "violated", message))
        f = Finding(self.prop, rule, function, construct, message, file, int(getattr(node, "lineno", 0) or 0), path or [])
        if not any(g.key == f.key for g in self.findings):
            self.findings.append(f)

    def check(self, cond: bool, rule: str, instance: str, *, function: str, construct: str, message: str,
              file: str = "", node: ast.AST | None = None, detail: str = "", path: list[str] | None = None) -> bool:
        if cond:
            self.ok(rule, instance, detail)
        else:
            self.violation(rule, instance, function=function, construct=construct, message=message, file=file,
                           node=node, path=path)
        return cond

    def floor(self, what: str, found: int, minimum: int, now: bool = False) -> None:
        """Instance floor: a rule that matches fewer sites than were confirmed by hand is analysis-broken.
        Deferred to the end of the check: a run that already found violations reports those (a verdict); a run without
        findings and with a missed floor is ANALYSIS-ERROR (it would otherwise pass vacuously)."""
        self.counters[f"floor:{what}"] = found
        if found < minimum:
            msg = (f"{self.prop}: {what}: found {found} instance(s), expected at least {minimum} "
                   f"(the rule would pass vacuously; the code moved outside the analyser's model)")
            if now:
                raise AnalysisError(msg)
            self.floor_failures.append(msg)

    def require(self, rule: str, what: str, found: int, minimum: int, *, function: str, construct: str, message: str,
                file: str = "", node=None) -> bool:
        """Like a floor, for constructs whose *absence is the defect* (the store that performs the operation, the emission of a
        token kind, the call that pads): fewer than `minimum` is a violation of the property, not an analysis problem."""
        self.counters[f"floor:{what}"] = found
        if found < minimum:
            self.violation(rule, what, function=function, construct=construct, message=message, file=file, node=node)
            return False
        self.ok(rule, what, f"{found} site(s)")
        return True

    def finish(self) -> None:
        if self.floor_failures and not self.findings:
            raise AnalysisError(self.floor_failures[0])

    def sample(self, s: object) -> None:
        if len(self.samples) < 40:
            self.samples.append(s)


# ------------------------------------------------------------------------------------------------

def load_known_findings() -> list[dict]:
    path = os.path.join(VERIF, "known_findings.json")
    if not os.path.exists(path):
        return []
    with open(path) as f:
        data = json.load(f)
    return data.get("findings", [])


def match_known(f: Finding, known: list[dict]) -> dict | None:
    for k in known:
        if k.get("status") != "open":
            continue  # a fixed entry suppresses nothing
        if (k.get("property") == f.property and k.get("rule") == f.rule and k.get("function") == f.function
                and k.get("construct") == f.construct):
            return k
    return None


def emit(ctx: Ctx, wall_s: float, seed: int, quiet: bool = False) -> int:
    known = load_known_findings()
    new, old = [], []
    for f in ctx.findings:
        k = match_known(f, known)
        (old if k else new).append((f, k))
    rep_dir = os.path.join(VERIF, "reports", ctx.prop)
    lines = []
    for f, k in old:
        lines.append(f"KNOWN-FINDING: property={f.property} {f.rule} {f.function}: {f.construct} -- {k.get('what_fails', f.message)}")
    for f, _ in new:
        os.makedirs(rep_dir, exist_ok=True)
        rp = os.path.join(rep_dir, f"{f.key}.json")
        with open(rp, "w") as fh:
            json.dump({"property": f.property, "rule": f.rule, "function": f.function, "construct": f.construct,
                       "message": f.message, "file": f.file, "line": f.line, "path": f.path, "key": f.key,
                       "replay": f"./check --replay {rp}"}, fh, indent=1)
        lines.append(f"VIOLATION property={f.property} replay={rp}")
        lines.append(f.diagnostic())
    write_evidence(ctx, wall_s, seed, len(new), len(old))
    if not quiet:
        n_ob = len(ctx.obligations)
        n_ok = sum(1 for o in ctx.obligations if o.status == "discharged")
        n_und = sum(1 for o in ctx.obligations if o.status == "undetermined")
        print(f"[{ctx.prop}] tier={ctx.tier} functions={len(ctx.analysed_functions)} obligations={n_ob} "
              f"discharged={n_ok} undetermined={n_und} violations={len(new)} known={len(old)} wall={wall_s:.2f}s")
        for o in ctx.obligations:
            if o.status == "undetermined":
                print(f"UNDETERMINED [{o.rule}] {o.instance[:140]} -- {o.detail[:140]}")
        for ln in lines:
            print(ln)
    return 1 if new else 0


def write_evidence(ctx: Ctx, wall_s: float, seed: int, n_new: int, n_known: int) -> None:
    evdir = os.environ.get("VERIF_EVIDENCE_DIR") or os.path.join(VERIF, "evidence")   # developer runs against seeded trees write elsewhere
    os.makedirs(evdir, exist_ok=True)
    obs = ctx.obligations
    distinct = {(o.rule, o.instance) for o in obs}
    by_rule: dict[str, dict[str, int]] = {}
    for o in obs:
        d = by_rule.setdefault(o.rule, {"discharged": 0, "violated": 0, "undetermined": 0})
        d[o.status] += 1
    samples = list(ctx.samples)
    if not samples:
        samples = [asdict(o) for o in obs[:12]]
    cov = {
        "explanation": ctx.explanation or "static analysis of the source tree (see DESIGN.md)",
        "obligations": len(obs),
        "discharged": sum(1 for o in obs if o.status == "discharged"),
        "undetermined": sum(1 for o in obs if o.status == "undetermined"),
        "violated": sum(1 for o in obs if o.status == "violated"),
        "known_findings_reported": n_known,
        "evaluations": len(obs),
        "distinct_nontrivial": len(distinct),
        "rule": "one evaluation = one rule instance (obligation) matched against a concrete construct of /repo's "
                "current source; distinct = distinct (rule, instance) pairs; all matched a real construct "
                "(rules with zero matches below their floor abort the run as ANALYSIS-ERROR)",
        "per_rule": by_rule,
        "undetermined_items": [{"rule": o.rule, "instance": o.instance[:200], "reason": o.detail[:200]} for o in obs if o.status == "undetermined"][:40],
        "functions_analysed": sorted(ctx.analysed_functions),
        "counters": ctx.counters,
        "samples": samples,
        "checker_cmd": f"./check {ctx.prop} --tier {ctx.tier}",
        "trusted_base": ["CPython ast parser", "the analysers under /verif/sa", "scoda/config/default_settings.json",
                         "hypotheses listed under assumptions"],
        "exhaustive": False,
    }
    cov.update({k: v for k, v in ctx.extra.items() if not str(k).startswith("_")})
    ev = {
        "property_id": ctx.prop,
        "tier": ctx.tier if ctx.tier in ("quick", "thorough") else "quick",
        "seed": seed,
        "level": "other",
        "coverage": cov,
        "assumptions": ctx.assumptions,
        "wall_s": round(wall_s, 3),
        "violations": n_new,
    }
    path = os.path.join(evdir, f"{ctx.prop}.json")
    tmp = path + ".tmp"
    with open(tmp, "w") as f:
        json.dump(ev, f, indent=1, default=str)
    os.replace(tmp, path)
